// Layer 3 of sim_hist: histories against LocalNetwork (implemented in hist_net.cpp).
#ifndef VERIF_HIST_NET_H
#define VERIF_HIST_NET_H
#include "sim/sim.h"
namespace histnet {
void init();
bool available();
void generate(sim::Plan& p, sim::Rng& g, const std::string& tier);
sim::Verdict execute(const sim::Plan& plan, sim::EventLog& log, sim::Stats& st);
}
#endif

// A small XML tokenizer for the harness: element / attribute byte ranges and a
// lexical label per byte.  It is only used to PLACE faults and to build
// grammar-aware edits; it decides nothing about validity.
#ifndef VERIF_XMLSCAN_H
#define VERIF_XMLSCAN_H
#include <string>
#include <vector>
#include <cstdint>

namespace xmlscan {

enum Ctx : uint8_t { TEXT = 0, TAGNAME = 1, ATTRNAME = 2, ATTRVALUE = 3, COMMENT = 4, DECL = 5, TAGOTHER = 6, NCTX = 7 };
inline const char* ctx_name(int c) { static const char* n[] = {"text", "tag-name", "attr-name", "attr-value", "comment", "declaration", "tag-punct"}; return n[c % NCTX]; }

struct Attr { size_t nb, ne, vb, ve; char quote; };       // name [nb,ne), value [vb,ve) without quotes
struct Tag {
  size_t b = 0, e = 0;            // [b,e) the tag itself
  bool start = false, end = false, empty = false;
  std::string name;
  std::vector<Attr> attrs;
  int match = -1;                 // start tag: index of its end tag
  size_t elem_end() const { return e; }
};

struct Scan {
  std::vector<Tag> tags;
  std::vector<uint8_t> ctx;       // per byte
  std::vector<int> elem_of;       // per byte: index of the innermost enclosing start tag, -1 at top level
  // [b,e) of the whole element opened by start/empty tag i
  void element_range(int i, size_t& b, size_t& e) const
  {
    b = tags[i].b;
    e = tags[i].empty || tags[i].match < 0 ? tags[i].e : tags[tags[i].match].e;
  }
};

inline bool name_char(char c) { return (c >= 'a' && c <= 'z') || (c >= 'A' && c <= 'Z') || (c >= '0' && c <= '9') || c == '-' || c == '_' || c == ':' || c == '.'; }

inline Scan scan(const std::string& d)
{
  Scan S; S.ctx.assign(d.size(), TEXT); S.elem_of.assign(d.size(), -1);
  std::vector<int> stack;
  size_t i = 0, n = d.size();
  while (i < n) {
    int cur = stack.empty() ? -1 : stack.back();
    if (d[i] != '<') { S.elem_of[i] = cur; i++; continue; }
    if (d.compare(i, 4, "<!--") == 0) {
      size_t e = d.find("-->", i + 4); e = e == std::string::npos ? n : e + 3;
      for (size_t k = i; k < e; k++) { S.ctx[k] = COMMENT; S.elem_of[k] = cur; }
      i = e; continue;
    }
    if (i + 1 < n && (d[i + 1] == '?' || d[i + 1] == '!')) {
      size_t e = d.find('>', i); e = e == std::string::npos ? n : e + 1;
      for (size_t k = i; k < e; k++) { S.ctx[k] = DECL; S.elem_of[k] = cur; }
      i = e; continue;
    }
    Tag t; t.b = i;
    size_t p = i + 1;
    if (p < n && d[p] == '/') { t.end = true; p++; }
    size_t nb = p; while (p < n && name_char(d[p])) p++;
    t.name = d.substr(nb, p - nb);
    for (size_t k = i; k < nb; k++) S.ctx[k] = TAGOTHER;
    for (size_t k = nb; k < p; k++) S.ctx[k] = TAGNAME;
    // attributes
    while (p < n && d[p] != '>') {
      if (d[p] == '/' && p + 1 < n && d[p + 1] == '>') { t.empty = true; S.ctx[p] = TAGOTHER; p++; break; }
      if (name_char(d[p])) {
        Attr a; a.nb = p; while (p < n && name_char(d[p])) { S.ctx[p] = ATTRNAME; p++; } a.ne = p;
        while (p < n && (d[p] == ' ' || d[p] == '\n' || d[p] == '\t' || d[p] == '\r' || d[p] == '=')) { S.ctx[p] = TAGOTHER; p++; }
        if (p < n && (d[p] == '"' || d[p] == '\'')) {
          a.quote = d[p]; S.ctx[p] = TAGOTHER; p++; a.vb = p;
          while (p < n && d[p] != a.quote) { S.ctx[p] = ATTRVALUE; p++; }
          a.ve = p; if (p < n) { S.ctx[p] = TAGOTHER; p++; }
          t.attrs.push_back(a);
        }
      } else { S.ctx[p] = TAGOTHER; p++; }
    }
    if (p < n) { S.ctx[p] = TAGOTHER; p++; }
    t.e = p;
    t.start = !t.end;
    int idx = (int)S.tags.size();
    if (t.end) {
      if (!stack.empty()) { S.tags[stack.back()].match = idx; stack.pop_back(); }
      cur = stack.empty() ? -1 : stack.back();
    }
    for (size_t k = t.b; k < t.e; k++) S.elem_of[k] = t.start && !t.empty ? idx : cur;
    S.tags.push_back(t);
    if (t.start && !t.empty) stack.push_back(idx);
    i = p;
  }
  return S;
}

} // namespace xmlscan
#endif

// Class (iii) documents of DESIGN.md section 5: sequences of element open / close events over the tag alphabet of a
// consumer, placed in one of a closed list of contexts (a well-formed prefix and the suffix that closes it).
// A document is DESCRIBED by the plan (header `alphabet`, `ctx`, steps `ev tag kind variant`) and BUILT here, so the
// shrinker removes events, not bytes.  The bounded sub-spaces "every sequence of d events in every context" are
// enumerated completely (indices below enumerated_count()).
#ifndef VERIF_IO_EVENTS_H
#define VERIF_IO_EVENTS_H

#include "sim/sim.h"
#include <string>
#include <vector>
#include <cmath>
#include <cstdio>
#include <algorithm>

namespace ioev {

using sim::Plan; using sim::Step; using sim::fmt;

// ------------------------------------------------------------- alphabets -----
static const char* GKF_TAGS[] = {"gama-local", "network", "description", "parameters", "points-observations", "point", "obs", "cov-mat", "direction", "distance",
                                 "angle", "s-distance", "z-angle", "height-differences", "dh", "coordinates", "vectors", "vec", "azimuth"};
static const char* G3_TAGS[] = {"a", "algorithm", "angle", "adj-input-data", "adjusted", "adjusted-observations", "adjustment-results", "adjustment-statistics",
  "angular-units-degrees", "angular-units-gons", "apriori-standard-deviation", "apriori-variance", "aposteriori-variance", "array", "azimuth", "b", "b-adjusted",
  "b-correction", "b-given", "band", "block-diagonal", "blocks", "block", "caption", "cee", "ceu", "cnn", "cne", "cnu", "confidence-level", "cols", "constants", "constr",
  "constr-height", "constr-position", "cov-mat", "cuu", "cxx", "cxy", "cxz", "cyy", "cyz", "czz", "db", "de", "defect", "design-matrix-graph", "dim", "distance", "dl", "dn",
  "du", "dx", "dx-observed", "dx-residual", "dx-adjusted", "dx-stdev-obs", "dx-stdev-adj", "dy", "dy-observed", "dy-residual", "dy-adjusted", "dy-stdev-obs", "dy-stdev-adj",
  "dz", "dz-observed", "dz-residual", "dz-adjusted", "dz-stdev-obs", "dz-stdev-adj", "e", "e-fixed", "e-free", "e-constr", "e-unused", "ellipsoid", "equations", "fixed",
  "flt", "from", "from-dh", "free", "g3-adjustment-results", "g3-model", "geoid", "gnu-gama-data", "h", "h-adjusted", "h-correction", "h-given", "hdiff", "height", "hobs",
  "id", "ind", "int", "inv-f", "l", "l-adjusted", "l-correction", "l-given", "left", "left-dh", "n", "n-fixed", "n-free", "n-constr", "n-unused", "nonz", "obs", "observed",
  "parameters", "point", "reason", "redundancy", "reference-variance-apriory", "reference-variance-aposteriori", "rejected", "rejected-observations", "residual", "right",
  "right-dh", "row", "rows", "stdev", "stdev-obs", "stdev-adj", "sparse-mat", "sum-of-squares", "text", "to", "to-dh", "tol-abs", "u", "u-fixed", "u-free", "u-constr",
  "u-unused", "unused", "val", "variance", "variance-factor-used", "vector", "width", "x", "x-adjusted", "x-correction", "x-given", "x-observed", "x-residual",
  "x-stdev-obs", "x-stdev-adj", "xyz", "y", "y-adjusted", "y-correction", "y-given", "y-observed", "y-residual", "y-stdev-obs", "y-stdev-adj", "z", "z-adjusted",
  "z-correction", "z-given", "z-observed", "z-residual", "z-stdev-obs", "z-stdev-adj", "zenith"};
static const char* ADJ_TAGS[] = {"X", "Y", "Z", "adj", "adjusted", "alpha", "angle", "angles", "aposteriori", "approx", "approximate", "apriori", "azimuth", "azimuths",
  "band", "confidence-scale", "connected-network", "coordinate-x", "coordinate-y", "coordinate-z", "coordinates", "coordinates-summary", "coordinates-summary-adjusted",
  "coordinates-summary-constrained", "coordinates-summary-fixed", "count-xy", "count-xyz", "count-z", "cov-mat", "defect", "degrees-of-freedom", "description", "dim",
  "direction", "directions", "disconnected-network", "distance", "distances", "dx", "dy", "dz", "ellipse", "ellipsoid", "epoch", "equations", "err-adj", "err-obs", "error",
  "f", "failed", "fixed", "flt", "from", "gama-local-adjustment", "h-diffs", "height-diff", "id", "ind", "latitude", "left", "lineNumber", "linearization-iterations", "lower",
  "major", "minor", "network-general-parameters", "network-processing-summary", "not-applicable", "obs", "observations", "observations-summary", "orientation",
  "orientation-shifts", "original-index", "passed", "point", "probability", "project-equations", "qrr", "ratio", "right", "s-dists", "slope-distance", "standard-deviation",
  "std-error-ellipses", "std-residual", "stdev", "sum-of-squares", "to", "unknowns", "upper", "used", "vectors", "x", "xyz-coords", "y", "z", "z-angles", "zenith-angle",
  "text", "bogus"};

struct Alphabet { const char* name; const char** tags; int n; const char* target; };
inline const Alphabet& alphabet(const std::string& a)
{
  static const Alphabet A[] = {
    {"gkf", GKF_TAGS, (int)(sizeof GKF_TAGS / sizeof GKF_TAGS[0]), "local"},
    {"g3", G3_TAGS, (int)(sizeof G3_TAGS / sizeof G3_TAGS[0]), "data"},
    {"adj", ADJ_TAGS, (int)(sizeof ADJ_TAGS / sizeof ADJ_TAGS[0]), "adjres"}};
  for (auto& x : A) if (a == x.name) return x;
  return A[0];
}

// -------------------------------------------------------------- contexts -----
struct Ctx { std::string prefix, suffix; };

inline const std::vector<Ctx>& contexts(const std::string& a)
{
  static std::vector<Ctx> gkf, g3, adj;
  if (gkf.empty()) {
    const std::string X = "<?xml version=\"1.0\"?>\n";
    const std::string G = "<gama-local xmlns=\"http://www.gnu.org/software/gama/gama-local\">\n", Ge = "</gama-local>\n";
    const std::string N = "<network axes-xy=\"ne\" angles=\"left-handed\">\n", Ne = "</network>\n";
    const std::string P = "<points-observations distance-stdev=\"5\" direction-stdev=\"10\" angle-stdev=\"10\" zenith-angle-stdev=\"10\" azimuth-stdev=\"10\">\n", Pe = "</points-observations>\n";
    const std::string PTS = "<point id=\"A\" x=\"0\" y=\"0\" z=\"10\" fix=\"xyz\"/>\n<point id=\"B\" x=\"100\" y=\"0\" z=\"11\" fix=\"xyz\"/>\n<point id=\"C\" x=\"50\" y=\"80\" z=\"12\" adj=\"xyz\"/>\n";
    const std::string NET = PTS + "<obs from=\"A\">\n<distance to=\"C\" val=\"94.34\"/>\n<direction to=\"B\" val=\"0\"/>\n<direction to=\"C\" val=\"64.4\"/>\n</obs>\n"
                            "<obs from=\"B\">\n<distance to=\"C\" val=\"94.35\"/>\n<distance to=\"A\" val=\"100.01\"/>\n</obs>\n"
                            "<height-differences>\n<dh from=\"A\" to=\"C\" val=\"2.01\" stdev=\"2\"/>\n<dh from=\"B\" to=\"C\" val=\"0.99\" stdev=\"2\"/>\n</height-differences>\n";
    gkf.push_back({X, ""});
    gkf.push_back({X + G, Ge});
    gkf.push_back({X + G + N, Ne + Ge});
    gkf.push_back({X + G + N + P, Pe + Ne + Ge});
    gkf.push_back({X + G + N + P + PTS + "<obs from=\"A\">\n", "</obs>\n" + Pe + Ne + Ge});
    gkf.push_back({X + G + N + P + PTS + "<height-differences>\n", "</height-differences>\n" + Pe + Ne + Ge});
    gkf.push_back({X + G + N + P + PTS + "<coordinates>\n", "</coordinates>\n" + Pe + Ne + Ge});
    gkf.push_back({X + G + N + P + PTS + "<vectors>\n", "</vectors>\n" + Pe + Ne + Ge});
    gkf.push_back({X + G + N + P + PTS + "<obs from=\"A\">\n<direction to=\"B\" val=\"0\"/>\n<direction to=\"C\" val=\"64.4\"/>\n", "</obs>\n" + Pe + Ne + Ge});
    gkf.push_back({X + G + N + P + NET, Pe + Ne + Ge});
    gkf.push_back({X + G + N + P + NET + Pe, Ne + Ge});

    const std::string D = "<gnu-gama-data xmlns=\"http://www.gnu.org/software/gama/gnu-gama-data\">\n", De = "</gnu-gama-data>\n";
    const std::string M = "<g3-model>\n", Me = "</g3-model>\n";
    const std::string CO = "<constants>\n<apriori-standard-deviation>10</apriori-standard-deviation>\n<confidence-level>0.95</confidence-level>\n<angular-units-gons/>\n<ellipsoid><id>wgs84</id></ellipsoid>\n</constants>\n";
    const std::string GP = "<fixed><n/><e/><u/></fixed>\n<point><id>A</id><b>50</b><l>14</l><h>300</h></point>\n<free><n/><e/><u/></free>\n<point><id>B</id><b>50.01</b><l>14.01</l><h>310</h></point>\n";
    const std::string GV = "<vector><from>A</from><to>B</to><dx>-100</dx><dy>700</dy><dz>800</dz></vector>\n";
    g3.push_back({X, ""});
    g3.push_back({X + D, De});
    g3.push_back({X + D + M, Me + De});
    g3.push_back({X + D + M + "<constants>\n", "</constants>\n" + Me + De});
    g3.push_back({X + D + M + CO + "<point>\n", "</point>\n" + Me + De});
    g3.push_back({X + D + M + CO + GP + "<obs>\n", "</obs>\n" + Me + De});
    g3.push_back({X + D + M + CO + GP + "<obs>\n<vector>\n", "</vector>\n</obs>\n" + Me + De});
    g3.push_back({X + D + M + CO + GP + "<obs>\n" + GV + "<cov-mat>\n", "</cov-mat>\n</obs>\n" + Me + De});
    g3.push_back({X + D + M + CO + "<fixed>\n", "</fixed>\n" + Me + De});
    g3.push_back({X + D + "<g3-adjustment-results>\n", "</g3-adjustment-results>\n" + De});
    g3.push_back({X + D + "<g3-adjustment-results>\n<adjustment-results>\n<point>\n", "</point>\n</adjustment-results>\n</g3-adjustment-results>\n" + De});
    g3.push_back({X + D + "<adj-input-data>\n", "</adj-input-data>\n" + De});
    g3.push_back({X + D + "<adj-input-data>\n<sparse-mat>\n", "</sparse-mat>\n</adj-input-data>\n" + De});
    g3.push_back({X + D + "<adj-input-data>\n<block-diagonal>\n", "</block-diagonal>\n</adj-input-data>\n" + De});
    g3.push_back({X + D + "<adj-input-data>\n<vector>\n", "</vector>\n</adj-input-data>\n" + De});
    g3.push_back({X + D + "<adj-input-data>\n<array>\n", "</array>\n</adj-input-data>\n" + De});
    g3.push_back({X + D + M + CO + GP + "<obs>\n" + GV + "<cov-mat><dim>3</dim><band>0</band><flt>0.4</flt><flt>0.2</flt><flt>0.5</flt></cov-mat>\n</obs>\n", Me + De});

    const std::string R = "<gama-local-adjustment xmlns=\"http://www.gnu.org/software/gama/gama-local-adjustment\">\n", Re = "</gama-local-adjustment>\n";
    const std::string S = "<network-processing-summary>\n", Se = "</network-processing-summary>\n";
    const std::string C = "<coordinates>\n", Ce = "</coordinates>\n";
    const std::string O = "<observations>\n", Oe = "</observations>\n";
    adj.push_back({X, ""});
    adj.push_back({X + R, Re});
    adj.push_back({X + R + "<network-general-parameters gama-local-version=\"2.32\" gama-local-algorithm=\"gso\" gama-local-compiler=\"x\" axes-xy=\"ne\" angles=\"left-handed\"/>\n" + S, Se + Re});
    adj.push_back({X + R + C, Ce + Re});
    adj.push_back({X + R + C + "<fixed>\n", "</fixed>\n" + Ce + Re});
    adj.push_back({X + R + C + "<adjusted>\n<point>\n", "</point>\n</adjusted>\n" + Ce + Re});
    adj.push_back({X + R + C + "<fixed>\n<point>\n", "</point>\n</fixed>\n" + Ce + Re});
    adj.push_back({X + R + C + "<cov-mat>\n", "</cov-mat>\n" + Ce + Re});
    adj.push_back({X + R + C + "<original-index>\n", "</original-index>\n" + Ce + Re});
    adj.push_back({X + R + C + "<orientation-shifts>\n<orientation>\n", "</orientation>\n</orientation-shifts>\n" + Ce + Re});
    adj.push_back({X + R + C + "<std-error-ellipses>\n<ellipse>\n", "</ellipse>\n</std-error-ellipses>\n" + Ce + Re});
    adj.push_back({X + R + O, Oe + Re});
    adj.push_back({X + R + O + "<direction>\n", "</direction>\n" + Oe + Re});
    adj.push_back({X + R + "<error category=\"gamaLocalParserError\">\n", "</error>\n" + Re});
    adj.push_back({X + R + S + "<standard-deviation>\n", "</standard-deviation>\n" + Se + Re});
    adj.push_back({X + R + S + "<coordinates-summary>\n<coordinates-summary-adjusted>\n", "</coordinates-summary-adjusted>\n</coordinates-summary>\n" + Se + Re});
    adj.push_back({X + R + S + "<observations-summary>\n", "</observations-summary>\n" + Se + Re});
    adj.push_back({X + R + S + "<project-equations>\n", "</project-equations>\n" + Se + Re});
  }
  return a == "g3" ? g3 : a == "adj" ? adj : gkf;
}

// ------------------------------------------------------------ attributes -----
inline uint64_t mix(uint64_t x) { x += 0x9e3779b97f4a7c15ull; x = (x ^ (x >> 30)) * 0xbf58476d1ce4e5b9ull; x = (x ^ (x >> 27)) * 0x94d049bb133111ebull; return x ^ (x >> 31); }

inline std::string attr_value(const std::string& n, uint64_t h)
{
  static const char* IDS[] = {"A", "B", "C", "D", "A", "B", "C", "", "Z Z"};
  static const char* NUM[] = {"0", "1", "100", "50.5", "-3", "1e2", "0.001", "400", "64.4", "abc", "", "1e999", "10 5 1"};
  static const char* ST[] = {"xy", "xyz", "z", "XY", "XYZ", "Z", "xyZ", "XYz", "bogus"};
  auto pick = [&](const char** p, int k) { return std::string(p[h % (uint64_t)k]); };
  if (n == "id" || n == "from" || n == "to" || n == "bs" || n == "fs") return pick(IDS, 9);
  if (n == "fix" || n == "adj") return pick(ST, 9);
  if (n == "dim") { static const char* v[] = {"1", "2", "3", "0", "-1", "x", "2"}; return pick(v, 7); }
  if (n == "band") { static const char* v[] = {"0", "1", "2", "5", "-1", "0"}; return pick(v, 6); }
  if (n == "axes-xy") { static const char* v[] = {"ne", "sw", "es", "wn", "en", "nw", "se", "ws", "xx"}; return pick(v, 9); }
  if (n == "angles") { static const char* v[] = {"left-handed", "right-handed", "x"}; return pick(v, 3); }
  if (n == "sigma-act") { static const char* v[] = {"apriori", "aposteriori", "x"}; return pick(v, 3); }
  if (n == "angular") { static const char* v[] = {"400", "360", "x"}; return pick(v, 3); }
  if (n == "algorithm") { static const char* v[] = {"gso", "svd", "cholesky", "envelope", "x"}; return pick(v, 5); }
  if (n == "cov-band") { static const char* v[] = {"-1", "0", "1", "x"}; return pick(v, 4); }
  if (n == "ellipsoid") { static const char* v[] = {"wgs84", "bessel", "x"}; return pick(v, 3); }
  if (n == "update-constrained-coordinates") { static const char* v[] = {"yes", "no", "x"}; return pick(v, 3); }
  if (n == "conf-pr") { static const char* v[] = {"0.95", "0.5", "1", "0", "x"}; return pick(v, 5); }
  if (n == "xmlns") { static const char* v[] = {"http://www.gnu.org/software/gama/gama-local", "x"}; return pick(v, 2); }
  if (n == "version") return "2.0";
  return pick(NUM, 13);
}

inline std::string gkf_attrs(const std::string& tag, long long v)
{
  if (v == 1) return "";
  struct T { const char* tag; const char* plain; const char* names; };
  static const T TAB[] = {
    {"gama-local", " xmlns=\"http://www.gnu.org/software/gama/gama-local\"", "xmlns version"},
    {"network", " axes-xy=\"ne\" angles=\"left-handed\"", "axes-xy angles epoch"},
    {"description", "", ""},
    {"parameters", " sigma-apr=\"10\" conf-pr=\"0.95\" tol-abs=\"1000\" sigma-act=\"aposteriori\"", "sigma-apr conf-pr tol-abs sigma-act angular algorithm cov-band latitude ellipsoid update-constrained-coordinates"},
    {"points-observations", " distance-stdev=\"5 3 1\" direction-stdev=\"10\" angle-stdev=\"10\" zenith-angle-stdev=\"10\" azimuth-stdev=\"10\"", "distance-stdev direction-stdev angle-stdev zenith-angle-stdev azimuth-stdev"},
    {"point", " id=\"D\" x=\"10\" y=\"20\" z=\"5\" adj=\"xyz\"", "id x y z fix adj"},
    {"obs", " from=\"A\"", "from orientation from_dh"},
    {"cov-mat", " dim=\"1\" band=\"0\"", "dim band"},
    {"direction", " to=\"B\" val=\"10\"", "from to val stdev from_dh to_dh extern"},
    {"distance", " from=\"A\" to=\"B\" val=\"100\"", "from to val stdev from_dh to_dh extern"},
    {"angle", " from=\"A\" bs=\"B\" fs=\"C\" val=\"64.4\"", "from bs fs val stdev from_dh bs_dh fs_dh extern"},
    {"s-distance", " from=\"A\" to=\"C\" val=\"94.4\"", "from to val stdev from_dh to_dh extern"},
    {"z-angle", " from=\"A\" to=\"C\" val=\"98\"", "from to val stdev from_dh to_dh extern"},
    {"height-differences", "", ""},
    {"dh", " from=\"A\" to=\"B\" val=\"1\" stdev=\"2\"", "from to val stdev dist extern"},
    {"coordinates", "", ""},
    {"vectors", "", ""},
    {"vec", " from=\"A\" to=\"B\" dx=\"100\" dy=\"0\" dz=\"1\"", "from to dx dy dz from_dh to_dh extern"},
    {"azimuth", " from=\"A\" to=\"B\" val=\"0\"", "from to val stdev from_dh to_dh extern"}};
  for (auto& t : TAB) if (tag == t.tag) {
    if (v == 0) return t.plain;
    std::string out, names = t.names; size_t p = 0; int k = 0;
    while (p < names.size()) {
      size_t q = names.find(' ', p); if (q == std::string::npos) q = names.size();
      std::string n = names.substr(p, q - p); p = q + 1; k++;
      uint64_t h = mix((uint64_t)v * 131 + (uint64_t)k);
      if (h % 4 == 0) continue;                       // an attribute left out
      out += " " + n + "=\"" + attr_value(n, h >> 8) + "\"";
    }
    return out;
  }
  return "";
}

inline std::string adj_attrs(const std::string& tag, long long v)
{
  if (v == 1) return "";
  if (tag == "network-general-parameters") return " gama-local-version=\"2.32\" gama-local-algorithm=\"gso\" gama-local-compiler=\"x\" axes-xy=\"ne\" angles=\"left-handed\"";
  if (tag == "error") return " category=\"gamaLocalParserError\"";
  if (tag == "gama-local-adjustment") return " xmlns=\"http://www.gnu.org/software/gama/gama-local-adjustment\"";
  return "";
}

inline std::string leaf_text(long long v)
{
  static const char* T[] = {"1", "", "0", "1 2 3", "4 0 4", "-1", "abc", "1.5e0", "1e999", "  7  ", "A", "B", "2", "3", "wgs84", "400", "0.5", "1e-3", "12-30-00", "nan"};
  return T[(size_t)(v < 0 ? -v : v) % 20];
}

// --------------------------------------------------------------- building ----
// kind: 0 open, 1 close the innermost open element (no-op when none of OUR elements is open), 2 leaf with text,
// 3 a raw closing tag whatever is open (not well formed unless it happens to fit)
inline std::string build(const Plan& plan, int* n_events = nullptr, std::string* shape = nullptr)
{
  std::string a = plan.get("alphabet", "gkf");
  const Alphabet& A = alphabet(a);
  const std::vector<Ctx>& CX = contexts(a);
  const Ctx& c = CX[(size_t)plan.geti("ctx", 0) % CX.size()];
  std::string d = c.prefix; std::vector<std::string> stack; int n = 0;
  if (shape) *shape = fmt("%s/ctx%ld:", a.c_str(), (long)(plan.geti("ctx", 0) % (long)CX.size()));
  for (const Step& s : plan.steps) {
    if (s.op != "ev") continue;
    std::string tag = A.tags[(size_t)s.arg(0) % (size_t)A.n]; long long kind = s.arg(1) % 4, v = s.arg(2);
    std::string at = a == "gkf" ? gkf_attrs(tag, v) : a == "adj" ? adj_attrs(tag, v) : "";
    n++;
    if (kind == 0) { d += "<" + tag + at + ">\n"; stack.push_back(tag); if (shape) *shape += "+" + tag; }
    else if (kind == 1) { if (!stack.empty()) { d += "</" + stack.back() + ">\n"; stack.pop_back(); } if (shape) *shape += "-"; }
    else if (kind == 2) { d += "<" + tag + at + ">" + leaf_text(v) + "</" + tag + ">\n"; if (shape) *shape += "=" + tag; }
    else { d += "</" + tag + ">\n"; if (!stack.empty() && stack.back() == tag) stack.pop_back(); if (shape) *shape += "!" + tag; }
  }
  if (!plan.geti("noclose", 0)) { while (!stack.empty()) { d += "</" + stack.back() + ">\n"; stack.pop_back(); } d += c.suffix; }
  if (n_events) *n_events = n;
  return d;
}


// ------------------------------------------------- synthetic g3 models -----
// Grammar-derived documents for gama-g3 (header `synth g3`): a consistent small GNSS / terrestrial network around
// (50 N, 14 E) described by steps, so that every observation kind the parser knows (vector, xyz, distance, zenith,
// azimuth, hdiff, height, angle) occurs, between declared points with and without coordinates and undeclared ones.
//   gs status mask            <fixed|free|constr|unused> with a subset of <n/><e/><u/>  (status of the points that follow)
//   gp id coords extra        <point>: coords 0 none, 1 b l h, 2 x y z; extra: <height>, own status element
//   go kind from to third v   one <obs> cluster with one observation (and sometimes its <cov-mat>)
struct G3Pt { double b, l, h, x, y, z; };
inline G3Pt g3_point(int i)
{
  const double PI = 3.14159265358979323846, a = 6378137.0, f = 1 / 298.257223563, e2 = f * (2 - f);
  G3Pt p; p.b = 50 + 0.011 * i + 0.003 * (i % 3); p.l = 14 + 0.013 * i - 0.004 * (i % 2); p.h = 300 + 7.5 * i;
  double B = p.b * PI / 180, L = p.l * PI / 180, N = a / std::sqrt(1 - e2 * std::sin(B) * std::sin(B));
  p.x = (N + p.h) * std::cos(B) * std::cos(L); p.y = (N + p.h) * std::cos(B) * std::sin(L); p.z = (N * (1 - e2) + p.h) * std::sin(B);
  return p;
}

inline std::string build_g3(const Plan& plan, int* n_steps = nullptr, std::string* shape = nullptr)
{
  const double PI = 3.14159265358979323846;
  static const char* ID[] = {"A", "B", "C", "D", "E", "F", "G", "H"};
  static const char* ST[] = {"fixed", "free", "constr", "unused"};
  std::string d = "<?xml version=\"1.0\" ?>\n<gnu-gama-data xmlns=\"http://www.gnu.org/software/gama/gnu-gama-data\">\n<g3-model>\n"
                  "<constants>\n<apriori-standard-deviation>10</apriori-standard-deviation>\n<confidence-level>0.95</confidence-level>\n<angular-units-gons/>\n<ellipsoid><id>wgs84</id></ellipsoid>\n</constants>\n";
  auto num = [](double v, int prec) { char b[64]; snprintf(b, sizeof b, "%.*f", prec, v); return std::string(b); };
  auto neu = [](long long mask) { std::string s; if (mask & 1) s += "<n/>"; if (mask & 2) s += "<e/>"; if (mask & 4) s += "<u/>"; return s; };
  int n = 0; if (shape) *shape = "g3syn:";
  for (const Step& s : plan.steps) {
    if (s.op == "gs") {
      d += std::string("<") + ST[s.arg(0) % 4] + ">" + neu(s.arg(1) % 8) + "</" + ST[s.arg(0) % 4] + ">\n"; n++;
      if (shape) *shape += fmt("s%lld%lld,", s.arg(0) % 4, s.arg(1) % 8);
    } else if (s.op == "gp") {
      int i = (int)(s.arg(0) % 8); G3Pt p = g3_point(i); long long c = s.arg(1) % 3, ex = s.arg(2) % 8;
      d += std::string("<point><id>") + ID[i] + "</id>";
      auto dms = [](double deg) { int dd = (int)deg; double r = (deg - dd) * 60; int mm = (int)r; double ss = (r - mm) * 60; char b[64]; snprintf(b, sizeof b, "%d-%02d-%09.6f", dd, mm, ss); return std::string(b); };
      if (c == 1) d += "<b>" + dms(p.b) + "</b><l>" + dms(p.l) + "</l><h>" + num(p.h, 4) + "</h>";
      if (c == 2) d += "<x>" + num(p.x, 4) + "</x><y>" + num(p.y, 4) + "</y><z>" + num(p.z, 4) + "</z>";
      if (ex == 1) d += "<height>" + num(p.h + 0.5, 3) + "</height>";
      if (ex == 2) d += "<geoid>0.5</geoid>";
      if (ex >= 3 && ex <= 6) d += std::string("<") + ST[ex - 3] + ">" + neu(1 + (s.arg(2) / 8) % 7) + "</" + ST[ex - 3] + ">";
      d += "</point>\n"; n++;
      if (shape) *shape += fmt("p%lld%lld,", c, ex);
    } else if (s.op == "go") {
      static const char* K[] = {"vector", "xyz", "distance", "zenith", "azimuth", "hdiff", "height", "angle"};
      int k = (int)(s.arg(0) % 8), a = (int)(s.arg(1) % 8), b = (int)(s.arg(2) % 8), c = (int)(s.arg(3) % 8); long long v = s.arg(4);
      G3Pt A = g3_point(a), B = g3_point(b), C = g3_point(c);
      double e = 0.001 * (double)(v % 7 - 3);                        // a few millimetres of "measurement error"
      double dx = B.x - A.x, dy = B.y - A.y, dz = B.z - A.z, dist = std::sqrt(dx * dx + dy * dy + dz * dz);
      double sb = std::sin(A.b * PI / 180), cb = std::cos(A.b * PI / 180), sl = std::sin(A.l * PI / 180), cl = std::cos(A.l * PI / 180);
      auto azi = [&](const G3Pt& T) { double x = T.x - A.x, y = T.y - A.y, z = T.z - A.z; double nn = -sb * cl * x - sb * sl * y + cb * z, ee = -sl * x + cl * y; double r = std::atan2(ee, nn); if (r < 0) r += 2 * PI; return r; };
      double up = cb * cl * dx + cb * sl * dy + sb * dz, zen = dist > 0 ? std::acos(std::max(-1.0, std::min(1.0, up / dist))) : 0;
      std::string opt;
      if ((v / 7) % 4 != 3) opt += "<stdev>5</stdev>";
      if ((v / 28) % 5 == 1) opt += "<from-dh>1.5</from-dh>";
      if ((v / 140) % 5 == 1) opt += "<to-dh>1.2</to-dh>";
      std::string o = "<obs>\n";
      switch (k) {
        case 0: o += std::string("<vector><from>") + ID[a] + "</from><to>" + ID[b] + "</to><dx>" + num(dx + e, 4) + "</dx><dy>" + num(dy - e, 4) + "</dy><dz>" + num(dz + e, 4) + "</dz></vector>\n"
                     "<cov-mat><dim>3</dim><band>0</band><flt>0.4</flt><flt>0.2</flt><flt>0.5</flt></cov-mat>\n"; break;
        case 1: o += std::string("<xyz><id>") + ID[a] + "</id><x>" + num(A.x + e, 4) + "</x><y>" + num(A.y, 4) + "</y><z>" + num(A.z - e, 4) + "</z></xyz>\n"
                     "<cov-mat><dim>3</dim><band>0</band><flt>0.1</flt><flt>0.1</flt><flt>0.1</flt></cov-mat>\n"; break;
        case 2: o += std::string("<distance><from>") + ID[a] + "</from><to>" + ID[b] + "</to><val>" + num(dist + e, 4) + "</val>" + opt + "</distance>\n"; break;
        case 3: o += std::string("<zenith><from>") + ID[a] + "</from><to>" + ID[b] + "</to><val>" + num(zen * 200 / PI, 6) + "</val>" + opt + "</zenith>\n"; break;
        case 4: o += std::string("<azimuth><from>") + ID[a] + "</from><to>" + ID[b] + "</to><val>" + num(azi(B) * 200 / PI, 6) + "</val>" + opt + "</azimuth>\n"; break;
        case 5: o += std::string("<hdiff><from>") + ID[a] + "</from><to>" + ID[b] + "</to><val>" + num(B.h - A.h + e, 4) + "</val>" + ((v / 7) % 4 != 3 ? "<stdev>5</stdev>" : "") + "</hdiff>\n"; break;
        case 6: o += std::string("<height><id>") + ID[a] + "</id><val>" + num(A.h + e, 4) + "</val>" + ((v / 7) % 4 != 3 ? "<stdev>5</stdev>" : "") + "</height>\n"; break;
        default: { double an = azi(C) - azi(B); if (an < 0) an += 2 * PI;
                 o += std::string("<angle><from>") + ID[a] + "</from><left>" + ID[b] + "</left><right>" + ID[c] + "</right><val>" + num(an * 200 / PI, 6) + "</val>" + ((v / 7) % 4 != 3 ? "<stdev>5</stdev>" : "") + "</angle>\n"; }
      }
      d += o + "</obs>\n"; n++;
      if (shape) *shape += fmt("o%d,", k);
    }
  }
  d += "</g3-model>\n</gnu-gama-data>\n";
  if (n_steps) *n_steps = n;
  return d;
}


// ----------------------------------------- synthetic gama-local networks -----
// Grammar-derived gama-local input (header `synth gkf`): a small consistent 3D network in the default conventions
// (axes-xy="ne", left-handed angles, gons), values computed from the true positions with millimetre noise.
//   kp id status coords       <point>: status 0 fix xyz, 1 adj xyz, 2 adj xy, 3 adj z, 4 adj XYZ, 5 fix xy adj z, 6 none;
//                             coords 0 all given, 1 none, 2 x y only, 3 z only
//   ko kind from to third v   one observation; consecutive observations of the same station share one <obs from=..>
//                             kind 0 direction, 1 distance, 2 angle, 3 s-distance, 4 z-angle, 5 azimuth
//   kh from to v              one <height-differences> cluster with one <dh>
//   kv from to v              one <vectors> cluster with one <vec> and its 3x3 covariance matrix (diagonal or full)
struct KPt { double x, y, z; };
inline KPt gkf_point(int i)
{
  static const KPt T[] = {{1000, 1000, 100}, {1000, 1200, 102}, {1100, 1100, 103}, {1180, 1030, 98.5}, {1040, 1290, 104.2}, {920, 1110, 101.3}, {1110, 950, 99.1}, {1000.5, 1000.2, 100.1}};
  return T[i % 8];
}
inline std::string build_gkf(const Plan& plan, int* n_steps = nullptr, std::string* shape = nullptr)
{
  const double PI = 3.14159265358979323846, RAD2GON = 200 / PI;
  static const char* ID[] = {"A", "B", "C", "D", "E", "F", "G", "H"};
  std::string d = std::string("<?xml version=\"1.0\" ?>\n<gama-local xmlns=\"http://www.gnu.org/software/gama/gama-local\">\n<network axes-xy=\"ne\" angles=\"left-handed\">\n") +
                  "<parameters sigma-apr=\"10\" conf-pr=\"0.95\" tol-abs=\"1000\" sigma-act=\"apriori\"" + std::string(plan.geti("klat", 0) ? (plan.geti("klat", 0) % 2 ? " latitude=\"50\"" : " latitude=\"50\" ellipsoid=\"bessel\"") : "") + " />\n" +
                  "<points-observations distance-stdev=\"5.0\" direction-stdev=\"10.0\" angle-stdev=\"10.0\" zenith-angle-stdev=\"10.0\" azimuth-stdev=\"10.0\">\n";
  auto num = [](double v, int prec) { char b[64]; snprintf(b, sizeof b, "%.*f", prec, v); return std::string(b); };
  auto gon = [&](double rad) { double g = rad * RAD2GON; while (g < 0) g += 400; while (g >= 400) g -= 400; return g; };
  int n = 0, open_from = -1; if (shape) *shape = "gkfsyn:";
  auto close_obs = [&]() { if (open_from >= 0) { d += "</obs>\n"; open_from = -1; } };
  for (const Step& s : plan.steps) {
    if (s.op == "kp") {
      close_obs();
      int i = (int)(s.arg(0) % 8); KPt p = gkf_point(i); long long st = s.arg(1) % 7, c = s.arg(2) % 4;
      // (coords 4..7 as 0..3 with the point far away: coordinates of 1e10 or 1e26 metres, numbers that need 12 or 28
      //  digits in fixed notation)
      if ((s.arg(2) / 4) % 4 == 1) { double f = (s.arg(2) / 16) % 2 ? 1e23 : 1e7; p.x *= f; p.y *= f; p.z *= f; }
      d += std::string("<point id=\"") + ID[i] + "\"";
      if (c == 0 || c == 2) d += " x=\"" + num(p.x, 3) + "\" y=\"" + num(p.y, 3) + "\"";
      if (c == 0 || c == 3) d += " z=\"" + num(p.z, 3) + "\"";
      static const char* STAT[] = {" fix=\"xyz\"", " adj=\"xyz\"", " adj=\"xy\"", " adj=\"z\"", " adj=\"XYZ\"", " fix=\"xy\" adj=\"z\"", ""};
      d += std::string(STAT[st]) + " />\n"; n++;
      if (shape) *shape += fmt("p%lld%lld,", st, c);
    } else if (s.op == "ko") {
      static const char* K[] = {"direction", "distance", "angle", "s-distance", "z-angle", "azimuth"};
      int k = (int)(s.arg(0) % 6), a = (int)(s.arg(1) % 8), b = (int)(s.arg(2) % 8), c = (int)(s.arg(3) % 8); long long v = s.arg(4);
      KPt A = gkf_point(a), B = gkf_point(b), C = gkf_point(c);
      double e = 0.001 * (double)(v % 7 - 3), dx = B.x - A.x, dy = B.y - A.y, dz = B.z - A.z, hd = std::sqrt(dx * dx + dy * dy);
      auto bearing = [&](const KPt& T) { return std::atan2(T.y - A.y, T.x - A.x); };
      if (open_from != a) { close_obs(); d += std::string("<obs from=\"") + ID[a] + "\">\n"; open_from = a; }
      double ori = 0.37 * (a + 1);                        // the unknown orientation of the set of directions at A
      std::string hts; if ((v / 7) % 6 == 1) hts += " from_dh=\"1.500\""; if ((v / 42) % 6 == 1) hts += " to_dh=\"1.300\"";
      std::string sd = (v / 252) % 4 == 1 ? " stdev=\"7.5\"" : "";
      // one observation in twenty-five states an extreme but well-formed value instead of the computed one
      static const char* QUIRK[] = {"1e-320", "0", "400", "1e300", "-0.00001", "399.99999999", "1e-9"};
      const char* quirk = (v / 1008) % 25 == 1 ? QUIRK[(v / 25200) % 7] : nullptr;
      if (quirk) { d += std::string("<") + K[k] + (k == 2 ? std::string(" bs=\"") + ID[b] + "\" fs=\"" + ID[c] + "\"" : std::string(" to=\"") + ID[b] + "\"") + " val=\"" + quirk + "\"" + sd + " />\n"; n++; if (shape) *shape += fmt("q%d,", k); continue; }
      switch (k) {
        case 0: d += std::string("<direction to=\"") + ID[b] + "\" val=\"" + num(gon(bearing(B) - ori) + e * 0.01, 5) + "\"" + sd + " />\n"; break;
        case 1: d += std::string("<distance to=\"") + ID[b] + "\" val=\"" + num(hd + e, 4) + "\"" + sd + " />\n"; break;
        case 2: d += std::string("<angle bs=\"") + ID[b] + "\" fs=\"" + ID[c] + "\" val=\"" + num(gon(bearing(C) - bearing(B)) + e * 0.01, 5) + "\"" + sd + " />\n"; break;
        case 3: d += std::string("<s-distance to=\"") + ID[b] + "\" val=\"" + num(std::sqrt(hd * hd + dz * dz) + e, 4) + "\"" + hts + sd + " />\n"; break;
        case 4: d += std::string("<z-angle to=\"") + ID[b] + "\" val=\"" + num(gon(std::atan2(hd, dz)) + e * 0.01, 5) + "\"" + hts + sd + " />\n"; break;
        default: d += std::string("<azimuth to=\"") + ID[b] + "\" val=\"" + num(gon(bearing(B)) + e * 0.01, 5) + "\"" + sd + " />\n";
      }
      n++; if (shape) *shape += fmt("o%d,", k);
    } else if (s.op == "kv") {
      close_obs();
      int a = (int)(s.arg(0) % 8), b = (int)(s.arg(1) % 8); long long v = s.arg(2);
      KPt A = gkf_point(a), B = gkf_point(b); double e = 0.001 * (double)(v % 5 - 2);
      d += std::string("<vectors>\n<vec from=\"") + ID[a] + "\" to=\"" + ID[b] + "\" dx=\"" + num(B.x - A.x + e, 4) + "\" dy=\"" + num(B.y - A.y - e, 4) + "\" dz=\"" + num(B.z - A.z + e, 4) + "\" />\n";
      d += (v / 5) % 2 ? "<cov-mat dim=\"3\" band=\"2\"> 9 1 0.5 9 1 16 </cov-mat>\n" : "<cov-mat dim=\"3\" band=\"0\"> 9 9 16 </cov-mat>\n";
      d += "</vectors>\n";
      n++; if (shape) *shape += "v,";
    } else if (s.op == "kh") {
      close_obs();
      int a = (int)(s.arg(0) % 8), b = (int)(s.arg(1) % 8); long long v = s.arg(2);
      d += std::string("<height-differences>\n<dh from=\"") + ID[a] + "\" to=\"" + ID[b] + "\" val=\"" + num(gkf_point(b).z - gkf_point(a).z + 0.001 * (double)(v % 5 - 2), 4) + "\" stdev=\"2.0\" />\n</height-differences>\n";
      n++; if (shape) *shape += "h,";
    }
  }
  close_obs();
  d += "</points-observations>\n</network>\n</gama-local>\n";
  if (n_steps) *n_steps = n;
  return d;
}


// A network that gama-local can adjust: three fixed points, one or two points to be determined with or without given
// coordinates, enough observations of mixed kinds to determine them, a few more at random, sometimes levelling and a
// vector.  Used as a document source by sim_restart (C13) and sim_hist (C04).
inline std::string tidy_network(sim::Rng& g)
{
  using sim::Step;
    sim::Plan q; auto stk = [&](const char* op, std::initializer_list<long long> a) { Step s; s.op = op; s.a = a; q.steps.push_back(s); };
    int nnew = (int)g.range(1, 2), np = 3 + nnew;
    for (int i = 0; i < 3; i++) stk("kp", {i, 0, 0});
    for (int i = 3; i < np; i++) stk("kp", {i, g.chance(1, 4) ? 4 : 1, g.chance(1, 2) ? 0 : 1});
    struct O { long long kind, from, to, third, v; }; std::vector<O> obs;
    for (int s = 0; s < 3; s++) obs.push_back({0, s, (s + 1) % 3, 0, (long long)g.below(1000)});       // orientation of every fixed station
    for (int P = 3; P < np; P++) {
      for (int s = 0; s < 2; s++) { obs.push_back({0, s, P, 0, (long long)g.below(1000)}); obs.push_back({g.chance(1, 2) ? 1 : 3, s, P, 0, (long long)g.below(1000)}); }
      obs.push_back({4, 0, P, 0, (long long)g.below(1000)}); obs.push_back({4, 1, P, 0, (long long)g.below(1000)});
      obs.push_back({2, P, 0, 1, (long long)g.below(1000)});
    }
    int extra = (int)g.range(0, 5);
    for (int i = 0; i < extra; i++) { long long a = (long long)g.below(np), b = (long long)g.below(np), c = (long long)g.below(np); if (a == b) b = (b + 1) % np; if (c == a || c == b) c = (c + 1) % np; if (c == a || c == b) c = (c + 1) % np; obs.push_back({(long long)g.below(6), a, b, c, (long long)g.below(1000)}); }
    std::stable_sort(obs.begin(), obs.end(), [](const O& x, const O& y) { return x.from < y.from; });
    for (auto& o : obs) stk("ko", {o.kind, o.from, o.to, o.third, o.v});
    // levelling and vector clusters in either order (a cluster without a covariance matrix of its own may follow one
    // that has one)
    bool vec_first = g.chance(1, 2), vec = g.chance(1, 3);
    if (vec && vec_first) stk("kv", {(long long)g.below(3), 3, (long long)g.below(1000)});
    for (int P = 3; P < np; P++) if (g.chance(1, 2)) stk("kh", {(long long)g.below(3), P, (long long)g.below(1000)});
    if (vec && !vec_first) stk("kv", {(long long)g.below(3), 3, (long long)g.below(1000)});
    return build_gkf(q);
}


// ------------------------------------------------------- documents of size ----
// Well-formed input of EXTREME SIZE (header `scale k`), through the parser alone: termination within the run's time
// limit is the clause that matters (an accidentally quadratic loop turns seconds into hours).
inline int n_scale_docs() { return 4; }
inline std::string build_scale(long long k)
{
  std::string head = "<?xml version=\"1.0\" ?>\n<gama-local xmlns=\"http://www.gnu.org/software/gama/gama-local\">\n<network>\n<points-observations distance-stdev=\"5\" direction-stdev=\"10\">\n";
  std::string tail = "</points-observations>\n</network>\n</gama-local>\n", d = head;
  switch (k % 4) {
    case 0: {   // one <obs> cluster of 1500 distances with a FULL covariance matrix: more than a million numbers in one <cov-mat>
      const int N = 1500;
      d += "<point id=\"A\" x=\"0\" y=\"0\" fix=\"xy\"/>\n<point id=\"B\" x=\"100\" y=\"0\" fix=\"xy\"/>\n<point id=\"C\" x=\"50\" y=\"80\" adj=\"xy\"/>\n<obs from=\"A\">\n";
      for (int i = 0; i < N; i++) d += "<distance to=\"C\" val=\"94.34\"/>\n";
      d += fmt("<cov-mat dim=\"%d\" band=\"%d\">\n", N, N - 1);
      for (int i = 0; i < N; i++) { d += "25"; d.append((size_t)(N - 1 - i) * 2, ' '); for (size_t q = d.size() - (size_t)(N - 1 - i) * 2; q < d.size(); q += 2) d[q + 1] = '0'; d += "\n"; }
      d += "</cov-mat>\n</obs>\n"; break; }
    case 1: {   // twenty thousand points and as many observations
      d += "<point id=\"A\" x=\"0\" y=\"0\" fix=\"xy\"/>\n<obs from=\"A\">\n";
      for (int i = 0; i < 20000; i++) d += fmt("<distance to=\"P%d\" val=\"%d.5\"/>\n", i, 10 + i % 90);
      d += "</obs>\n";
      for (int i = 0; i < 20000; i++) d += fmt("<point id=\"P%d\" x=\"%d\" y=\"%d\" adj=\"xy\"/>\n", i, i % 300, i / 300);
      break; }
    case 2: {   // identifiers and a description of hundreds of kilobytes
      std::string id(200000, 'i'); std::string text; for (int i = 0; i < 20000; i++) text += "a line of the description, fifty characters long.\n";
      d = "<?xml version=\"1.0\" ?>\n<gama-local xmlns=\"http://www.gnu.org/software/gama/gama-local\">\n<network>\n<description>" + text + "</description>\n<points-observations distance-stdev=\"5\">\n";
      d += "<point id=\"" + id + "\" x=\"0\" y=\"0\" fix=\"xy\"/>\n<point id=\"C\" x=\"50\" y=\"80\" adj=\"xy\"/>\n<obs from=\"" + id + "\">\n<distance to=\"C\" val=\"94.34\"/>\n</obs>\n"; break; }
    default: {  // ten thousand clusters, each with its own small covariance matrix
      d += "<point id=\"A\" x=\"0\" y=\"0\" fix=\"xy\"/>\n<point id=\"C\" x=\"50\" y=\"80\" adj=\"xy\"/>\n";
      for (int i = 0; i < 10000; i++) d += "<obs from=\"A\">\n<distance to=\"C\" val=\"94.34\"/>\n<distance to=\"C\" val=\"94.35\"/>\n<cov-mat dim=\"2\" band=\"1\"> 25 1 25 </cov-mat>\n</obs>\n";
    }
  }
  return d + tail;
}

// ----------------------------------------------------------- enumeration -----
// One enumerated sub-space: every sequence of `depth` events from `events` in every context of the alphabet.
struct Ev { int tag; int kind; int variant; };
struct Space { std::string alphabet, target; int depth; std::vector<Ev> events; size_t nctx; uint64_t count; };

inline std::vector<Ev> event_set(const std::string& a, bool variants, bool leaves)
{
  const Alphabet& A = alphabet(a); std::vector<Ev> e;
  for (int t = 0; t < A.n; t++) { e.push_back({t, 0, 0}); if (variants) e.push_back({t, 0, 1}); if (leaves) e.push_back({t, 2, 0}); }
  e.push_back({0, 1, 0});
  return e;
}

inline std::vector<Space> spaces(const std::string& tier)
{
  std::vector<Space> v;
  auto add = [&](const char* a, const char* target, int depth, bool variants, bool leaves) {
    Space s; s.alphabet = a; s.target = target; s.depth = depth; s.events = event_set(a, variants, leaves); s.nctx = contexts(a).size();
    s.count = s.nctx; for (int i = 0; i < depth; i++) s.count *= s.events.size();
    v.push_back(s);
  };
  add("gkf", "local", 2, true, false);          // 39^2 * 11
  add("g3", "g3", 1, false, true);              // (2*190+1) * 17 through gama-g3's main()
  add("adj", "adjres", 1, false, true);
  if (tier == "thorough") {
    add("gkf", "local", 3, false, false);       // 20^3 * 11
    add("g3", "data", 2, false, false);         // 191^2 * 17
    add("adj", "adjres", 2, false, false);
  }
  return v;
}

inline void fill_plan(Plan& p, const Space& s, uint64_t k)
{
  p.set("alphabet", s.alphabet); p.set("target", s.target);
  p.seti("ctx", (long long)(k % s.nctx)); k /= s.nctx;
  std::vector<Ev> seq;
  for (int i = 0; i < s.depth; i++) { seq.push_back(s.events[k % s.events.size()]); k /= s.events.size(); }
  for (auto& e : seq) { Step st; st.op = "ev"; st.a = {e.tag, e.kind, e.variant}; p.steps.push_back(st); }
}

} // namespace ioev
#endif

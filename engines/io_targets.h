// The other byte-stream consumers of C11: the adjustment-result readers (XML and
// HTML), gama-g3's DataParser driven directly, and gama-g3's main().
#ifndef VERIF_IO_TARGETS_H
#define VERIF_IO_TARGETS_H

#include "sim/sim.h"
#include "engines/gama_net.h"
#include "engines/procemu.h"

#include <gnu_gama/xml/localnetwork_adjustment_results.h>
#include <gnu_gama/xml/dataparser.h>
#include <gnu_gama/xml/dataobject.h>
#include <gnu_gama/exception.h>

extern "C" int gama_g3_main(int argc, char** argv);

namespace iotargets {

using namespace sim;

inline std::string pick(Rng& g)
{
  int r = (int)g.below(10);
  return r < 4 ? "adjres" : r < 6 ? "html" : r < 8 ? "data" : "g3";
}

inline const std::vector<gnet::Doc>& pool(const std::string& target, const std::vector<gnet::Doc>& gkf, const std::vector<gnet::Doc>& adj, const std::vector<gnet::Doc>& g3)
{
  if (target == "adjres" || target == "html") return adj.empty() ? gkf : adj;
  if (target == "data" || target == "g3") return g3.empty() ? gkf : g3;
  return gkf;
}

// "valid documents are accepted" is only claimed where the corpus document itself is of the consumer's grammar
inline bool accepts_valid_claim(const std::string& target) { return target == "local" || target == "gkf" || target == "adjres" || target == "data"; }

struct Outcome { std::string kind = "ok"; long line = -1; int code = 0; std::string what, digest; long reads_after_end = 0; };

inline std::string digest_results(const GNU_gama::LocalNetworkAdjustmentResults& r)
{
  // only what the document itself defines: strings, identifiers, list sizes
  std::string d = "desc[" + r.description + "] alg[" + r.network_general_parameters.gama_local_algorithm + "] axes[" + r.network_general_parameters.axes_xy + "] angles[" +
                  r.network_general_parameters.angles + "] epoch[" + r.network_general_parameters.epoch + "]";
  d += fmt(" fixed %zu approx %zu adjusted %zu ellipses %zu orientations %zu obs %zu origidx %zu covdim %d", r.fixed_points.size(), r.approximate_points.size(),
           r.adjusted_points.size(), r.ellipses.size(), r.orientations.size(), r.obslist.size(), r.original_index.size(), r.cov.dim());
  for (auto& p : r.fixed_points) d += " F[" + p.id + "]";
  for (auto& p : r.adjusted_points) d += " A[" + p.id + "]";
  for (auto& o : r.orientations) d += " O[" + o.id + "]";
  for (auto& o : r.obslist) d += " B[" + o.xml_tag + "|" + o.from + "|" + o.to + "|" + o.left + "|" + o.right + "]";
  return d;
}

inline Outcome run_adjres(const std::string& B, const std::vector<size_t>& lens, bool err_end, bool html)
{
  Outcome o;
  SimStreamBuf sb; sb.load(B, lens, err_end); std::istream in(&sb);
  try {
    GNU_gama::LocalNetworkAdjustmentResults res;
    if (html) res.read_html(in); else res.read_xml(in);
    o.digest = digest_results(res);
  }
  catch (const GNU_gama::Exception::parser& e) { o.kind = "parser"; o.line = e.line; o.code = e.error_code; o.what = e.str; }
  catch (const GNU_gama::Exception::matvec& e) { o.kind = "matvec-exception"; o.what = e.what(); }
  catch (const GNU_gama::Exception::base&) { o.kind = "gama-exception"; }
  catch (const std::bad_alloc&) { o.kind = "resource"; }
  catch (const std::length_error&) { o.kind = "resource"; }
  o.reads_after_end = sb.reads_after_end();
  return o;
}

inline Outcome run_data(const std::string& B, const std::vector<size_t>& cuts, bool finalsep)
{
  Outcome o;
  std::list<GNU_gama::DataObject::Base*> objects;
  try {
    GNU_gama::DataParser parser(objects);
    size_t pos = 0; std::vector<size_t> cs = cuts; std::sort(cs.begin(), cs.end());
    for (size_t c : cs) { if (c < pos || c > B.size()) continue; parser.xml_parse(B.data() + pos, (int)(c - pos), 0); pos = c; }
    if (finalsep) { parser.xml_parse(B.data() + pos, (int)(B.size() - pos), 0); parser.xml_parse("", 0, 1); }
    else parser.xml_parse(B.data() + pos, (int)(B.size() - pos), 1);
    o.digest = fmt("objects %zu", objects.size());
  }
  catch (const GNU_gama::Exception::parser& e) { o.kind = "parser"; o.line = e.line; o.code = e.error_code; o.what = e.str; }
  catch (const GNU_gama::Exception::matvec& e) { o.kind = "matvec-exception"; o.what = e.what(); }
  catch (const GNU_gama::Exception::base&) { o.kind = "gama-exception"; }
  catch (const std::bad_alloc&) { o.kind = "resource"; }
  catch (const std::length_error&) { o.kind = "resource"; }
  for (auto* p : objects) delete p;
  return o;
}

// a short stable tag made of the words of a diagnostic, so that distinct defects of one clause get distinct classes
inline std::string slug(const std::string& w)
{
  std::string r; bool dash = false;
  for (char c : w) { if (isalpha((unsigned char)c)) { r += (char)tolower(c); dash = false; } else if (!dash && !r.empty()) { r += '-'; dash = true; } if (r.size() >= 48) break; }
  while (!r.empty() && r.back() == '-') r.pop_back();
  return r.empty() ? "none" : r;
}

// line breaks as expat counts them: LF, CR LF, and a lone CR
inline long nlines(const std::string& s) { long n = 1; for (size_t i = 0; i < s.size(); i++) if (s[i] == '\n' || (s[i] == '\r' && (i + 1 >= s.size() || s[i + 1] != '\n'))) n++; return n; }

inline Verdict execute(const std::string& target, const Plan& plan, const std::string& B, const std::vector<size_t>& cuts, bool err_end, bool finalsep,
                       bool valid_claim, EventLog& log, Stats& st)
{
  (void)plan;
  if (target == "adjres" || target == "html") {
    bool html = target == "html";
    std::vector<size_t> cs = cuts; std::sort(cs.begin(), cs.end()); std::vector<size_t> lens; size_t pos = 0;
    for (size_t c : cs) { if (c <= pos || c >= B.size()) continue; lens.push_back(c - pos); pos = c; }
    Outcome a = run_adjres(B, lens, err_end, html);
    st.add("parses"); st.add("bytes_delivered", (long long)B.size()); st.add("chunks", (long long)lens.size() + 1);
    log.line("%s %s line=%ld code=%d digest=%016llx again=%ld", target.c_str(), a.kind.c_str(), a.line, a.code, (unsigned long long)fnv(a.digest), a.reads_after_end);
    st.state("verdicts", fmt("%s/%s/%d", target.c_str(), a.kind.c_str(), a.code));
    if (a.reads_after_end > 3) return Verdict::fail(fmt("C11:spin-on-dead-stream:%s", target.c_str()), 0, fmt("%ld further reads after end of stream", a.reads_after_end));
    if (a.kind == "resource") return Verdict();
    if (a.kind == "parser") {
      // read_html feeds the whole stream as one line after rewriting entities: its line numbers refer to that text
      if (a.line < 1 || a.line > nlines(B) + 1) return Verdict::fail(fmt("C11:%s:%s", a.line < 1 ? "refusal-without-line" : "line-out-of-range", target.c_str()), 0,
                                                                    fmt("parser exception names line %ld (%ld lines): %s", a.line, nlines(B), a.what.c_str()));
      st.add("refusals_located");
    } else if (a.kind != "ok") return Verdict::fail(fmt("C11:refusal-without-line:%s:%s", target.c_str(), a.kind.c_str()), 0, a.what);
    if (!lens.empty() || err_end) {
      Outcome r = run_adjres(B, {}, false, html); st.add("parses");
      // A stream ERROR is not a clean end of data: the line-wise readers drop the line in which it struck (getline
      // fails although characters were extracted).  What was read is then the text up to the last complete line,
      // and the verdict must be that of either text -- nothing else.
      if (err_end && (r.kind != a.kind || (a.kind == "ok" && r.digest != a.digest))) {
        size_t nl = B.rfind(html ? '\0' : '\n');       // read_html takes the stream as "lines" that end with a NUL: the whole text is the line in which the error struck
        Outcome r2 = run_adjres(nl == std::string::npos ? std::string() : B.substr(0, nl + 1), {}, false, html); st.add("parses");
        if (r2.kind == a.kind && (a.kind != "ok" || r2.digest == a.digest)) { st.add("error_dropped_partial_line"); r = r2; }
      }
      if (r.kind != a.kind) return Verdict::fail(fmt("C11:verdict-depends-on-chunking:%s:", target.c_str()) + slug(a.kind == "parser" ? a.what : r.what), 0,
                                                 fmt("chunked: %s (%s); one piece: %s (%s)", a.kind.c_str(), a.what.c_str(), r.kind.c_str(), r.what.c_str()));
      if (a.kind == "ok" && r.digest != a.digest) return Verdict::fail(fmt("C11:content-depends-on-chunking:%s", target.c_str()), 0, "same bytes, other chunk plan, different content read");
    }
    if (valid_claim && a.kind != "ok") return Verdict::fail(fmt("C11:valid-document-refused:%s:", target.c_str()) + slug(a.what), 0, fmt("line %ld: %s", a.line, a.what.c_str()));
    return Verdict();
  }
  if (target == "data") {
    Outcome a = run_data(B, cuts, finalsep);
    st.add("parses"); st.add("bytes_delivered", (long long)B.size()); st.add("chunks", (long long)cuts.size() + 1);
    log.line("data %s line=%ld code=%d %s", a.kind.c_str(), a.line, a.code, a.digest.c_str());
    st.state("verdicts", fmt("data/%s/%d", a.kind.c_str(), a.code));
    if (a.kind == "resource") return Verdict();
    if (a.kind == "parser") {
      if (a.line < 1 || a.line > nlines(B) + 1) return Verdict::fail(fmt("C11:%s:data", a.line < 1 ? "refusal-without-line" : "line-out-of-range"), 0, fmt("parser exception names line %ld (%ld lines): %s", a.line, nlines(B), a.what.c_str()));
      st.add("refusals_located");
    } else if (a.kind != "ok") return Verdict::fail(fmt("C11:refusal-without-line:data:%s", a.kind.c_str()), 0, a.what);
    if (!cuts.empty() || finalsep) {
      Outcome r = run_data(B, {}, false); st.add("parses");
      if (r.kind != a.kind) return Verdict::fail("C11:verdict-depends-on-chunking:data:" + slug(a.kind == "parser" ? a.what : r.what), 0,
                                                 fmt("chunked: %s (line %ld: %s); one piece: %s (line %ld: %s)", a.kind.c_str(), a.line, a.what.c_str(), r.kind.c_str(), r.line, r.what.c_str()));
      if (a.kind == "ok" && r.digest != a.digest) return Verdict::fail("C11:content-depends-on-chunking:data", 0, "different number of data objects");
    }
    if (valid_claim && a.kind != "ok") return Verdict::fail("C11:valid-document-refused:data:" + slug(a.what), 0, fmt("line %ld: %s", a.line, a.what.c_str()));
    return Verdict();
  }
  if (target == "g3") {
    // gama-g3's main() in process, always with ALL of its options (its option statics cannot be reset from outside)
    procemu::MemFile in, out, pe; in.create(B); out.create(); pe.create();
    static const char* ALG[] = {"envelope", "gso", "svd", "cholesky"};
    std::string alg = ALG[plan.geti("g3alg", 0) % 4];
    std::vector<std::string> args = {"gama-g3", "--algorithm", alg, "--project-equations", pe.path, in.path, out.path};
    std::vector<char*> argv; for (auto& a : args) argv.push_back(&a[0]); argv.push_back(nullptr);
    std::stringbuf ob, eb; std::streambuf *oo = std::cout.rdbuf(&ob), *oe = std::cerr.rdbuf(&eb);
    std::ios so(nullptr), se(nullptr); so.copyfmt(std::cout); se.copyfmt(std::cerr);
    int rc = 0; bool escaped = false; std::string what;
    try { rc = gama_g3_main((int)args.size(), argv.data()); } catch (const std::exception& e) { escaped = true; what = e.what(); } catch (...) { escaped = true; what = "unknown"; }
    std::cout.rdbuf(oo); std::cerr.rdbuf(oe); std::cout.copyfmt(so); std::cerr.copyfmt(se); std::cout.clear(); std::cerr.clear();
    std::string res = out.read_all(), err = eb.str();
    in.close_(); out.close_(); pe.close_();
    st.add("processes"); st.add("bytes_delivered", (long long)B.size());
    log.line("g3 exit=%d out=%016llx err=%016llx", rc, (unsigned long long)fnv(res), (unsigned long long)fnv(err));
    st.state("verdicts", fmt("g3/%d/%s", rc, err.find("XML parser error") != std::string::npos ? "parser" : err.empty() ? "-" : "other"));
    if (escaped) return Verdict::fail("C11:escaped-exception:g3", 0, what);
    size_t p = err.find("XML parser error on line ");
    if (p != std::string::npos) {
      long line = atol(err.c_str() + p + 25);
      if (line < 1 || line > nlines(B) + 1) return Verdict::fail("C11:line-out-of-range:g3", 0, fmt("diagnostic names line %ld (%ld lines)", line, nlines(B)));
      st.add("refusals_located");
    } else if (err.find("catch ... ") != std::string::npos) {
      // gama-g3 reports every other exception this way, std::bad_alloc for a <dim> of 2e9 included.  Resource refusals
      // are exempt from the line clause: DataParser on the same bytes tells which kind it was.
      Outcome dp = run_data(B, {}, false); st.add("parses");
      if (dp.kind == "resource") { st.add("resource_refusals"); return Verdict(); }
      // (a document without a g3-model is also "error on reading XML input data", but that is absence, not a located fault)
      return Verdict::fail("C11:refusal-without-line:g3", 0, "the parser raised something other than a parser exception; gama-g3 refused the input without naming a line: " + err.substr(0, 200));
    }
    return Verdict();
  }
  return Verdict();
}

} // namespace iotargets
#endif

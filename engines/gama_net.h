// Shared helpers on top of the real gama-local library: corpus loading, parsing a
// document with a chunk plan, the preparation steps of gama-local's main(), a
// canonical dump of the parsed survey, tokenised comparison of text documents.
#ifndef VERIF_GAMA_NET_H
#define VERIF_GAMA_NET_H

#include "sim/sim.h"

#include <gnu_gama/outstream.h>
#include <gnu_gama/xml/gkfparser.h>
#include <gnu_gama/xml/localnetworkxml.h>
#include <gnu_gama/xml/localnetworkoctave.h>
#include <gnu_gama/local/language.h>
#include <gnu_gama/local/gamadata.h>
#include <gnu_gama/local/network.h>
#include <gnu_gama/local/acord/acord2.h>
#include <gnu_gama/local/acord/acordstatistics.h>
#include <gnu_gama/local/acord/reduce_to_ellipsoid.h>
#include <gnu_gama/local/svg.h>
#include <gnu_gama/local/html.h>
#include <gnu_gama/local/results/text/general_parameters.h>
#include <gnu_gama/local/results/text/adjusted_observations.h>
#include <gnu_gama/local/results/text/adjusted_unknowns.h>
#include <gnu_gama/local/results/text/residuals_observations.h>
#include <gnu_gama/local/results/text/error_ellipses.h>
#include <gnu_gama/local/results/text/fixed_points.h>
#include <gnu_gama/local/test_linearization_visitor.h>
#include <gnu_gama/ellipsoids.h>

#include <dirent.h>
#include <functional>
#include <memory>
#include <sstream>
#include <typeinfo>
#include <algorithm>
#include <cmath>

namespace gnet {

using GNU_gama::local::LocalNetwork;

struct Doc { std::string name, bytes; };

inline std::vector<Doc> load_dir(const std::string& dir, const std::string& suffix, size_t max_bytes)
{
  std::vector<Doc> v;
  DIR* d = opendir(dir.c_str()); if (!d) return v;
  std::vector<std::string> names;
  while (dirent* e = readdir(d)) { std::string n = e->d_name; if (n.size() > suffix.size() && n.compare(n.size() - suffix.size(), suffix.size(), suffix) == 0) names.push_back(n); }
  closedir(d);
  std::sort(names.begin(), names.end());            // directory order is not deterministic
  for (auto& n : names) { Doc x; x.name = n; if (sim::read_file(dir + "/" + n, x.bytes) && !x.bytes.empty() && x.bytes.size() <= max_bytes) v.push_back(x); }
  return v;
}

inline std::string corpus_root()
{
  const char* e = getenv("VERIF_CORPUS");
  return e ? e : "/verif/corpus";
}

// Parse `bytes` into the network, delivering the chunks given by `cuts` (offsets where a new chunk starts).
// Throws GNU_gama::local::ParserException / local::Exception exactly as the library does.
inline void parse_gkf(LocalNetwork& net, const std::string& bytes, const std::vector<size_t>& cuts = {})
{
  GNU_gama::local::GKFparser gkf(net);
  size_t pos = 0;
  for (size_t c : cuts) {
    if (c <= pos || c >= bytes.size()) continue;
    gkf.xml_parse(bytes.data() + pos, (int)(c - pos), 0);
    pos = c;
  }
  gkf.xml_parse(bytes.data() + pos, (int)(bytes.size() - pos), 1);
}

struct Prep { bool adjustable = false; std::string why; };

// The steps gama-local's main() performs between parsing and the first output (src/gama-local.cpp), on the real code.
inline Prep prepare_like_main(LocalNetwork* IS, const std::string& alg, const std::function<void(LocalNetwork*)>& before_first_adjustment = nullptr)
{
  using namespace GNU_gama::local;
  Prep p;
  if (!alg.empty()) IS->set_algorithm(alg);
  if (!IS->has_algorithm()) IS->set_algorithm();
  if (IS->PD.empty()) { p.why = "no points"; return p; }
  if (IS->OD.clusters.empty()) { p.why = "no observations"; return p; }
  GNU_gama::OutStream sink(nullptr);
  IS->remove_inconsistency();
  AcordStatistics stats(IS->PD, IS->OD);
  Acord2 acord2(IS->PD, IS->OD);
  acord2.execute();
  refine_obsdh_reductions(IS);
  if (IS->correction_to_ellipsoid()) {
    GNU_gama::gama_ellipsoid elnum = GNU_gama::ellipsoid(IS->ellipsoid().c_str());
    GNU_gama::Ellipsoid el{};
    GNU_gama::set(&el, elnum);
    ReduceToEllipsoid reduce_to_el(IS->PD, IS->OD, el, IS->latitude());
    reduce_to_el.execute();
  }
  stats.execute();
  if (IS->points_count() == 0 || IS->unknowns_count() == 0) { p.why = "no network points"; return p; }
  if (IS->huge_abs_terms()) IS->remove_huge_abs_terms();
  if (before_first_adjustment) before_first_adjustment(IS);
  std::ostringstream tmp;
  GNU_gama::OutStream tmp_out(&tmp);
  p.adjustable = GeneralParameters(IS, tmp_out);
  if (!p.adjustable) p.why = "GeneralParameters says the network cannot be adjusted";
  return p;
}

// ---------------------------------------------------------------- tokens -----
// Documents are compared token-wise: numeric tokens by value, the rest byte-wise.
inline bool is_num_char(char c) { return (c >= '0' && c <= '9') || c == '.' || c == '-' || c == '+' || c == 'e' || c == 'E'; }

inline std::vector<std::string> tokenize(const std::string& s)
{
  std::vector<std::string> t; std::string cur; int kind = 0;   // 1 numeric-ish, 2 other
  for (char c : s) {
    int k = (c == ' ' || c == '\n' || c == '\t' || c == '\r') ? 0 : is_num_char(c) ? 1 : 2;
    if (k != kind && !cur.empty()) { t.push_back(cur); cur.clear(); }
    if (k) cur += c;
    kind = k;
  }
  if (!cur.empty()) t.push_back(cur);
  return t;
}

inline bool parse_num(const std::string& t, double& v)
{
  if (t.empty()) return false;
  char* e = nullptr; v = strtod(t.c_str(), &e);
  return e && *e == '\0' && e != t.c_str();
}

// relative tolerance rtol on numeric tokens, plus an absolute slack of `ulps_printed` units in the last printed digit
inline bool tokens_equal(const std::string& a, const std::string& b, double rtol, std::string* where = nullptr)
{
  std::vector<std::string> ta = tokenize(a), tb = tokenize(b);
  if (ta.size() != tb.size()) { if (where) *where = sim::fmt("token count %zu vs %zu", ta.size(), tb.size()); return false; }
  for (size_t i = 0; i < ta.size(); i++) {
    if (ta[i] == tb[i]) continue;
    double x, y;
    if (parse_num(ta[i], x) && parse_num(tb[i], y)) {
      double sc = std::max(1.0, std::max(std::fabs(x), std::fabs(y)));
      if (std::fabs(x - y) <= rtol * sc) continue;
    }
    if (where) *where = sim::fmt("token %zu: '%s' vs '%s'", i, ta[i].c_str(), tb[i].c_str());
    return false;
  }
  return true;
}

// ----------------------------------------------------------------- dump ------
// Canonical dump of what was parsed: points with status (and optionally coordinates), clusters in order with
// their observations, covariance matrices, parameters.  Values are internal (radians, metres).
inline std::string dump_network(LocalNetwork& net, bool with_coordinates, int digits = 17)
{
  using namespace GNU_gama::local;
  std::ostringstream o; o.precision(digits);
  o << "apriori_m0 " << net.apriori_m_0() << " conf_pr " << net.conf_pr() << " tol_abs " << net.tol_abs()
    << " m0_type " << (net.m_0_apriori() ? "apriori" : "aposteriori") << " gons " << net.gons()
    << " algorithm " << (net.has_algorithm() ? net.algorithm() : "-") << " covband " << net.adj_covband()
    << " epoch " << (net.has_epoch() ? net.epoch() : -1) << " latitude " << (net.has_latitude() ? net.latitude() : -1)
    << " ellipsoid " << (net.has_ellipsoid() ? net.ellipsoid() : "-") << " maxiter " << net.max_linearization_iterations()
    << " lcs " << (int)net.PD.local_coordinate_system << " angles " << (net.PD.left_handed_angles() ? "left" : "right") << "\n";
  o << "description [" << net.description << "]\n";
  for (auto& kv : net.PD) {
    const LocalPoint& p = kv.second;
    o << "point [" << kv.first.str() << "] xy " << (p.fixed_xy() ? "fixed" : p.constrained_xy() ? "constrained" : p.free_xy() ? "free" : "unused")
      << " z " << (p.fixed_z() ? "fixed" : p.constrained_z() ? "constrained" : p.free_z() ? "free" : "unused")
      << " has_xy " << p.test_xy() << " has_z " << p.test_z();
    if (with_coordinates) { if (p.test_xy()) o << " x " << p.x() << " y " << p.y(); if (p.test_z()) o << " z " << p.z(); }
    o << "\n";
  }
  for (auto* cl : net.OD.clusters) {
    const char* ct = dynamic_cast<StandPoint*>(cl) ? "obs" : dynamic_cast<Coordinates*>(cl) ? "coordinates" : dynamic_cast<HeightDifferences*>(cl) ? "height-differences" : dynamic_cast<Vectors*>(cl) ? "vectors" : "cluster";
    o << "cluster " << ct << " n " << cl->observation_list.size() << " covdim " << cl->covariance_matrix.dim() << " band " << cl->covariance_matrix.bandWidth();
    if (auto* sp = dynamic_cast<StandPoint*>(cl)) o << " station [" << sp->station.str() << "]";
    o << "\n";
    for (auto* ob : cl->observation_list) {
      const char* k = typeid(*ob).name();
      o << "  " << k << " [" << ob->from().str() << "] [" << ob->to().str() << "] val " << ob->raw_value() << " active " << ob->active()
        << " from_dh " << ob->from_dh() << " to_dh " << ob->to_dh() << " extern [" << ob->get_extern() << "]";
      if (auto* a = dynamic_cast<Angle*>(ob)) o << " fs [" << a->fs().str() << "] fs_dh " << a->fs_dh();
      if (auto* h = dynamic_cast<H_Diff*>(ob)) o << " dist " << h->dist();
      o << "\n";
    }
    const auto& C = cl->covariance_matrix;
    o << "  cov";
    for (int i = 1; i <= C.dim(); i++) for (int j = i; j <= std::min(C.dim(), i + C.bandWidth()); j++) o << " " << C(i, j);
    o << "\n";
  }
  return o.str();
}

} // namespace gnet
#endif

// sim_hist — C04: answers of solvers, Adj and LocalNetwork do not depend on the
// order or history of queries (DESIGN.md section 4).
//
// Every answer of a used object is compared with the answer of a FRESH object of
// the same class, configured with the used object's current input and asked only
// that question.  The reference is the code itself, without history.
#include "sim/sim.h"
#include "engines/hist_net.h"

#include <gnu_gama/adj/adj.h>
#include <gnu_gama/adj/adj_input_data.h>
#include <gnu_gama/adj/adj_envelope.h>
#include <gnu_gama/adj/adj_chol.h>
#include <gnu_gama/adj/adj_gso.h>
#include <gnu_gama/adj/adj_svd.h>
#include <matvec/svd.h>
#include <gnu_gama/sparse/intlist.h>
#include <gnu_gama/exception.h>

#include <memory>
#include <cmath>
#include <algorithm>

using namespace sim;
using GNU_gama::Exception::matvec;
typedef GNU_gama::Vec<double, int, matvec> RVec;
typedef GNU_gama::Mat<double, int, matvec> RMat;
typedef GNU_gama::AdjBase<double, int, matvec> ABase;
typedef GNU_gama::AdjBaseFull<double, int, matvec> AFull;
typedef GNU_gama::AdjBaseSparse<double, int, matvec, GNU_gama::AdjInputData> ASparse;

namespace {

const char* ALG[] = {"envelope", "cholesky", "gso", "svd", "rawsvd"};

// ------------------------------------------------------------ problems ------
// A seeded least-squares problem with an unambiguous rank: built from small
// integers, defect planted through the structure (components of a difference
// graph, or a product of integer factors).
struct Problem {
  int M = 0, N = 0, defect = 0, kind = 0;
  RMat A; RVec b;                         // dense, as the full solvers take them
  std::vector<int> bw, bdim; std::vector<std::vector<double>> blocks;   // covariance blocks for the sparse input
  std::unique_ptr<GNU_gama::AdjInputData> input;                        // for AdjEnvelope
  GNU_gama::AdjInputData* make_input() const;
};

static void build_problem(Problem& P, uint64_t seed)
{
  Rng g(seed);
  int kind = (int)g.below(3);
  int N = (int)g.range(2, 9), d = (int)g.below(4); if (d > N - 1) d = N - 1;
  std::vector<std::vector<std::pair<int, double>>> rows;
  if (kind <= 1) {
    // difference graph on N nodes: comp[] splits the nodes into max(d,1) components
    int comps = std::max(d, 1);
    std::vector<int> comp(N);
    for (int i = 0; i < N; i++) comp[i] = i < comps ? i : (int)g.below(comps);
    // chain inside each component (narrow envelope) plus some random chords
    for (int c = 0; c < comps; c++) {
      std::vector<int> mem; for (int i = 0; i < N; i++) if (comp[i] == c) mem.push_back(i);
      if (kind == 1) for (size_t i = mem.size(); i > 1; i--) std::swap(mem[i - 1], mem[g.below(i)]);
      for (size_t i = 1; i < mem.size(); i++) { double w = (double)g.range(1, 3); rows.push_back({{mem[i - 1], -w}, {mem[i], w}}); }
      int extra = (int)g.below(3);
      for (int e = 0; e < extra && mem.size() >= 2; e++) { int a = mem[g.below(mem.size())], b = mem[g.below(mem.size())]; if (a != b) rows.push_back({{a, -1.0}, {b, 1.0}}); }
      // three-term rows (angle-like): differences of differences keep the constant vector in the null space
      if (mem.size() >= 3 && g.chance(1, 2)) { int a = mem[0], b = mem[1], cc = mem[2]; rows.push_back({{a, 1.0}, {b, -2.0}, {cc, 1.0}}); }
    }
    if (d == 0) { int anchors = (int)g.range(1, 2); for (int a = 0; a < anchors; a++) rows.push_back({{(int)g.below(N), 1.0}}); }
    // repeat a few rows so that M > N fairly often
    int rep = (int)g.below(4); for (int r = 0; r < rep && !rows.empty(); r++) rows.push_back(rows[g.below(rows.size())]);
  } else {
    // dense: A = B*C with C (N-d) x N unit upper trapezoidal: rank exactly N-d
    int r = N - d, M = r + (int)g.range(0, 4);
    std::vector<double> B((size_t)M * r), C((size_t)r * N);
    for (int i = 0; i < M; i++) for (int q = 0; q < r; q++) B[(size_t)i * r + q] = i == q ? 1.0 : i > q ? (double)g.range(-2, 2) : 0.0;
    for (int q = 0; q < r; q++) for (int k = 0; k < N; k++) C[(size_t)q * N + k] = k == q ? 1.0 : k > q ? (double)g.range(-2, 2) : 0.0;
    for (int i = 0; i < M; i++) { std::vector<std::pair<int, double>> row; for (int k = 0; k < N; k++) { double s = 0; for (int q = 0; q < r; q++) s += B[(size_t)i * r + q] * C[(size_t)q * N + k]; if (s != 0) row.push_back({k, s}); } if (row.empty()) row.push_back({(int)g.below(N), 0.0}); rows.push_back(row); }
  }
  int M = (int)rows.size();
  P.M = M; P.N = N; P.defect = d; P.kind = kind;
  P.A.reset(M, N); P.A.set_zero(); P.b.reset(M);
  for (int i = 0; i < M; i++) { for (auto& e : rows[i]) P.A(i + 1, e.first + 1) += e.second; P.b(i + 1) = (double)g.range(-5, 5) + (double)g.range(0, 7) / 8.0; }
  // covariance blocks (sparse input only): diagonal or small banded SPD blocks
  P.bw.clear(); P.bdim.clear(); P.blocks.clear();
  int left = M;
  while (left > 0) {
    int dim = (int)g.range(1, std::min(left, 4)), w = g.chance(1, 2) ? 0 : (int)g.below(dim);
    std::vector<double> full((size_t)dim * dim, 0.0);
    for (int i = 0; i < dim; i++) for (int k = i + 1; k < dim && k <= i + w; k++) full[i * dim + k] = full[k * dim + i] = (double)g.range(-2, 2) / 4.0;
    for (int i = 0; i < dim; i++) { double s = 0; for (int k = 0; k < dim; k++) if (k != i) s += std::fabs(full[i * dim + k]); full[i * dim + i] = s + 0.5 + (double)g.range(0, 3) / 2.0; }
    std::vector<double> packed;
    for (int i = 0; i < dim; i++) for (int k = i; k < dim && k <= i + w; k++) packed.push_back(full[i * dim + k]);
    P.bdim.push_back(dim); P.bw.push_back(w); P.blocks.push_back(packed);
    left -= dim;
  }
}

GNU_gama::AdjInputData* Problem::make_input() const
{
  auto* in = new GNU_gama::AdjInputData;
  int nz = 0; for (int i = 1; i <= M; i++) for (int k = 1; k <= N; k++) if (A(i, k) != 0) nz++;
  auto* sm = new GNU_gama::SparseMatrix<>(nz + M, M, N);
  for (int i = 1; i <= M; i++) {
    sm->new_row(); bool any = false;
    for (int k = 1; k <= N; k++) if (A(i, k) != 0) { sm->add_element(A(i, k), k); any = true; }
    if (!any) sm->add_element(0.0, 1);
  }
  in->set_mat(sm);
  int floats = 0; for (auto& b : blocks) floats += (int)b.size();
  auto* bd = new GNU_gama::BlockDiagonal<>((int)blocks.size(), floats);
  for (size_t i = 0; i < blocks.size(); i++) bd->add_block(bdim[i], bw[i], blocks[i].data());
  in->set_cov(bd);
  RVec rhs(M); for (int i = 1; i <= M; i++) rhs(i) = b(i);
  in->set_rhs(rhs);
  return in;
}

// ------------------------------------------------------------- values -------
// the observable result of one query: a list of doubles, or an exception category
struct Val {
  std::string exc;                 // empty = returned normally
  std::vector<double> v;
  std::string str() const
  {
    if (!exc.empty()) return "throw:" + exc;
    std::string s; for (size_t i = 0; i < v.size() && i < 12; i++) { if (i) s += ","; s += hexfloat(v[i]); } if (v.size() > 12) s += fmt(",..(%zu)", v.size());
    return s;
  }
};

static bool same_val(const Val& a, const Val& b)
{
  if (a.exc != b.exc) return false;
  if (a.v.size() != b.v.size()) return false;
  double sc = 1; for (double x : b.v) if (std::isfinite(x)) sc = std::max(sc, std::fabs(x));
  for (size_t i = 0; i < a.v.size(); i++) {
    double x = a.v[i], y = b.v[i];
    if (std::isnan(x) && std::isnan(y)) continue;
    if (x == y) continue;
    if (!(std::fabs(x - y) <= 1e-12 * sc)) return false;
  }
  return true;
}

template <class F> static Val guarded(F f)
{
  Val r;
  try { f(r); }
  catch (const matvec& e) { r.v.clear(); r.exc = fmt("matvec:%d", e.error()); }
  catch (const GNU_gama::Exception::base&) { r.v.clear(); r.exc = "gama"; }
  return r;
}

// lib/matvec's SVD driven directly, the way pinv() and user code drive it: no solution cached outside the class, so
// what SVD::min_x / reset do to an already decomposed matrix is observable (AdjSVD re-decomposes after every min_x)
class RawSVD : public ABase {
public:
  void reset(const RMat& A, const RVec& b) { pA = &A; pb = &b; svd.reset(A); }
  const RVec& unknowns() override { svd.solve(*pb, x); return x; }
  const RVec& residuals() override { svd.solve(*pb, x); r = *pA * x; r -= *pb; return r; }
  double sum_of_squares() override { const RVec& v = residuals(); return v.dot(v); }
  int defect() override { return svd.nullity(); }
  double q_xx(int i, int j) override { return svd.q_xx(i, j); }
  double q_bb(int i, int j) override { return svd.q_bb(i, j); }
  double q_bx(int i, int j) override { return svd.q_bx(i, j); }
  bool lindep(int i) override { return svd.lindep(i); }
  void min_x() override { svd.min_x(); }
  void min_x(int n, int l[]) override { svd.min_x(n, l); }
private:
  GNU_gama::SVD<double, int, matvec> svd; const RMat* pA = nullptr; const RVec* pb = nullptr; RVec x, r;
};

static ABase* new_solver(int alg)
{
  if (alg == 4) return new RawSVD;
  switch (alg) {
    case 0: return new GNU_gama::AdjEnvelope<double, int, matvec>;
    case 1: return new GNU_gama::AdjCholDec<double, int, matvec>;
    case 2: return new GNU_gama::AdjGSO<double, int, matvec>;
    default: return new GNU_gama::AdjSVD<double, int, matvec>;
  }
}

static void give_input(ABase* s, const Problem& P)
{
  if (auto* rs = dynamic_cast<RawSVD*>(s)) { rs->reset(P.A, P.b); return; }
  if (auto* f = dynamic_cast<AFull*>(s)) f->reset(P.A, P.b);
  else if (auto* sp = dynamic_cast<ASparse*>(s)) sp->reset(P.input.get());
}

struct Query { std::string kind; int i = 0, j = 0; };

// plan arguments are interpreted modulo what is valid for the problem the object currently holds
static Query resolve(const std::string& kind, long long a, long long b, const Problem& P)
{
  Query q; q.kind = kind;
  int N = std::max(P.N, 1), M = std::max(P.M, 1);
  if (kind == "qbb") { q.i = 1 + (int)(a % M); q.j = 1 + (int)(b % M); }
  else if (kind == "qbx") { q.i = 1 + (int)(a % M); q.j = 1 + (int)(b % N); }
  else if (kind == "qxx" || kind == "q0") { q.i = 1 + (int)(a % N); q.j = 1 + (int)(b % N); }
  else if (kind == "lin") { q.i = 1 + (int)(a % N); q.j = 0; }
  else { q.i = q.j = 0; }
  return q;
}

static Val ask(ABase* s, const Query& q, const Problem& P)
{
  const std::string& k = q.kind;
  int i = q.i, j = q.j, bi = q.i, bj = q.j;
  return guarded([&](Val& r) {
    if (k == "unk") { const RVec& x = s->unknowns(); for (int n = 1; n <= x.dim(); n++) r.v.push_back(x(n)); }
    else if (k == "res") { const RVec& x = s->residuals(); for (int n = 1; n <= x.dim(); n++) r.v.push_back(x(n)); }
    else if (k == "ssq") r.v.push_back(s->sum_of_squares());
    else if (k == "def") r.v.push_back(s->defect());
    else if (k == "qxx") r.v.push_back(s->q_xx(i, j));
    else if (k == "q0") r.v.push_back(s->q0_xx(i, j));
    else if (k == "qbb") r.v.push_back(s->q_bb(bi, bj));
    else if (k == "qbx") r.v.push_back(s->q_bx(bi, j));
    else if (k == "lin") r.v.push_back(s->lindep(i) ? 1 : 0);
    else if (k == "cond") r.v.push_back(s->cond());
  });
}

// ------------------------------------------------------------ engine --------
class HistEngine : public Engine {
public:
  const char* name() const override { return "sim_hist"; }
  const char* property() const override { return "C04"; }
  Plan generate(uint64_t seed, uint64_t index, const std::string& tier) override;
  Verdict execute(const Plan& plan, EventLog& log, Stats& st) override;
  std::vector<Plan> simplify(const Plan& p) override;
  void init(const std::string&) override { histnet::init(); }
private:
  Verdict exec_solvers(const Plan& plan, EventLog& log, Stats& st);
};

struct SolverObj {
  int alg = 0;
  std::unique_ptr<ABase> s;
  int input = 0;                 // index of the problem currently given
  std::vector<int> subset;       // current regularisation subset; empty + all=true means all
  bool all = true;
  int asked = 0;
  bool failed_reg = false;       // the last solve raised BadRegularization (LocalNetwork::null_space keeps using such an object)
};

static std::vector<int> make_subset(uint64_t seed, int k, int N)
{
  Rng g(seed * 7919 + 13);
  std::vector<int> all(N); for (int i = 0; i < N; i++) all[i] = i + 1;
  for (int i = N; i > 1; i--) std::swap(all[i - 1], all[g.below(i)]);
  k = 1 + k % N;
  all.resize(k); std::sort(all.begin(), all.end());
  return all;
}

Verdict HistEngine::exec_solvers(const Plan& plan, EventLog& log, Stats& st)
{
  int nprob = (int)plan.geti("nprob", 2), nobj = (int)plan.geti("nobj", 1);
  std::vector<std::unique_ptr<Problem>> probs;
  for (int p = 0; p < nprob; p++) {
    probs.emplace_back(new Problem);
    build_problem(*probs.back(), (uint64_t)plan.geti("prob" + std::to_string(p), p + 1));
    probs.back()->input.reset(probs.back()->make_input());
    log.line("problem %d kind=%d M=%d N=%d planted-defect=%d", p, probs.back()->kind, probs.back()->M, probs.back()->N, probs.back()->defect);
  }
  std::vector<SolverObj> objs(nobj);
  for (int o = 0; o < nobj; o++) {
    objs[o].alg = (int)plan.geti("alg" + std::to_string(o), 0) % 5;
    objs[o].s.reset(new_solver(objs[o].alg));
    objs[o].input = o % nprob;
    give_input(objs[o].s.get(), *probs[objs[o].input]);
    log.line("object %d %s on problem %d", o, ALG[objs[o].alg], objs[o].input);
  }
  std::map<std::string, Val> memo;
  auto fresh = [&](const SolverObj& so, const Query& q) -> const Val& {
    std::string key = fmt("%d/%d/%s/", so.alg, so.input, so.all ? "all" : "sub");
    for (int x : so.subset) key += std::to_string(x) + ",";
    const Problem& P = *probs[so.input];
    key += q.kind + fmt("/%d/%d", q.i, q.j);
    auto it = memo.find(key);
    if (it != memo.end()) return it->second;
    std::unique_ptr<ABase> f(new_solver(so.alg));
    give_input(f.get(), P);
    if (!so.all) { std::vector<int> sub = so.subset; f->min_x((int)sub.size(), sub.data()); }
    Val v = ask(f.get(), q, P);
    st.add("fresh_objects");
    return memo[key] = v;
  };

  int n = 0;
  for (const Step& s : plan.steps) {
    int o = (int)(s.arg(0) % nobj); SolverObj& so = objs[o]; const Problem& P = *probs[so.input];
    const char* an = ALG[so.alg];
    if (s.op == "minall") {
      so.s->min_x(); so.all = true; so.subset.clear(); so.failed_reg = false;
      log.line("%d o%d min_x(all)", n, o); st.add("ops.min_x"); st.nontrivial = true; st.shape += fmt("%s:minall,", an);
      st.state("hist", fmt("%s/min_x-all/asked%d", an, std::min(so.asked, 2)));
    } else if (s.op == "minsub") {
      std::vector<int> sub = make_subset((uint64_t)s.arg(1), (int)s.arg(2), P.N);
      so.all = false; so.subset = sub; so.failed_reg = false;
      Val mv = guarded([&](Val&) { so.s->min_x((int)sub.size(), sub.data()); });
      if (!mv.exc.empty()) st.add("fault.exception_survived");
      std::string t; for (int x : sub) t += std::to_string(x) + " ";
      log.line("%d o%d min_x(subset %s) %s", n, o, t.c_str(), mv.exc.c_str()); st.add("ops.min_x"); st.nontrivial = true; st.shape += fmt("%s:minsub%zu,", an, sub.size());
      st.state("hist", fmt("%s/min_x-subset/asked%d", an, std::min(so.asked, 2)));
    } else if (s.op == "reset") {
      int which = (int)(s.arg(1) % 3);
      int target = which == 0 ? so.input : which == 1 ? (so.input + 1) % nprob : o % nprob;
      so.input = target;
      give_input(so.s.get(), *probs[target]);
      // LocalNetwork::project_equations gives the regularisation again after every reset; a fresh object starts
      // from the same statement, so the reference never depends on what reset() does to an earlier min_x
      // (C04 quantifies over reset(SAME input): there the statement is optional and half of the resets leave it out.
      //  After a reset to ANOTHER input it is always made: AdjEnvelope materialises the implicit "all unknowns" list
      //  for the size of the problem at hand and keeps it across reset(), so a bare reset to a problem of another size
      //  is outside what the property promises - see DESIGN.md section 10.5)
      if (so.all) { if (which != 0 || s.arg(3) % 2 == 0) so.s->min_x(); } else { std::vector<int> sub = make_subset((uint64_t)s.arg(2), (int)s.arg(3), probs[target]->N); so.subset = sub; guarded([&](Val&) { so.s->min_x((int)sub.size(), sub.data()); }); }
      so.failed_reg = false;
      log.line("%d o%d reset(problem %d)", n, o, target); st.add("ops.reset"); st.nontrivial = true; st.shape += fmt("%s:reset%d,", an, which);
      st.state("hist", fmt("%s/reset-%s/asked%d", an, which == 0 ? "same" : which == 1 ? "other" : "back", std::min(so.asked, 2)));
    } else {
      Query q = resolve(s.op, s.arg(1), s.arg(2), P);
      static const char* KQ[] = {"unk", "res", "ssq", "def", "qxx", "q0", "qbb", "qbx", "lin", "cond"};
      bool knownq = false; for (auto k : KQ) if (q.kind == k) knownq = true;
      if (!knownq) { n++; continue; }
      Val used = ask(so.s.get(), q, P);
      const Val& ref = fresh(so, q);
      if (so.asked > 0) st.nontrivial = true;
      so.asked++;
      st.add("queries");
      if (!used.exc.empty()) { st.add("fault.exception_survived"); st.nontrivial = true; }
      st.state("hist", fmt("%s/%s/%s/asked%d/%s", an, q.kind.c_str(), P.defect ? "singular" : "regular", std::min(so.asked, 3), used.exc.empty() ? "value" : "throw"));
      log.line("%d o%d %s(%d,%d) = %s", n, o, q.kind.c_str(), q.i, q.j, used.str().c_str());
      st.shape += fmt("%s:%s%c%c,", an, q.kind.c_str(), P.defect ? 's' : 'r', used.exc.empty() ? 'v' : 't');
      const std::string BADREG = fmt("matvec:%d", (int)GNU_gama::Exception::BadRegularization);
      if (ref.exc == BADREG) {
        // The regularisation subset does not resolve the defect: the quantity has no value, a fresh object refuses.
        // What a USED object does then is not judged (LocalNetwork::null_space relies on lindep() answering after such
        // a failure); memory safety still gates.  The converse - a used object refusing where a fresh one answers - is.
        // Only for what null_space() asks: lindep and defect.  For everything else the refusal must be STICKY: a used
        // object answering with a value where a fresh one refuses is "another value depending on what was asked before".
        if (q.kind == "lin" || q.kind == "def" || !used.exc.empty()) { st.add("undefined_quantity_skipped"); n++; continue; }
      }
      if (!same_val(used, ref)) {
        std::string cls;
        if (used.exc != ref.exc) cls = fmt("C04:throw-differs:%s:%s", q.kind.c_str(), an);
        else cls = fmt("C04:value-differs:%s:%s", q.kind.c_str(), an);
        return Verdict::fail(cls, n, fmt("object %d (%s, problem %d, %s) answered %s = %s; a fresh object asked only that says %s",
                                         o, an, so.input, so.all ? "min_x all" : "min_x subset", q.kind.c_str(), used.str().c_str(), ref.str().c_str()));
      }
    }
    n++;
  }
  return Verdict();
}

// ---- layer 2: Adj, the entry point of gama-g3 --------------------------------------------------------------------
// Adj owns its input (set() deletes the previous one), so every set() gets a new copy.  gama-g3 always asks x() first
// after set() / set_algorithm(); rtr(), defect(), q_xx(), q_bb() read the solver of the last x() (defect() and q_xx()
// dereference a null pointer before the first x()).  That call order is a precondition of the class, stated the same
// way for the used object and for the reference: every query is preceded by x().
static const GNU_gama::Adj::algorithm ADJALG[] = {GNU_gama::Adj::envelope, GNU_gama::Adj::cholesky, GNU_gama::Adj::gso, GNU_gama::Adj::svd};

static GNU_gama::AdjInputData* adj_input(const Problem& P, const std::vector<int>& minx)
{
  GNU_gama::AdjInputData* in = P.make_input();
  if (!minx.empty()) { auto* l = new GNU_gama::IntegerList<>((int)minx.size()); int k = 0; for (int v : minx) (*l)(k++) = v; in->set_minx(l); }
  return in;
}

static Val ask_adj(GNU_gama::Adj& a, const std::string& k, int i, int j)
{
  return guarded([&](Val& r) {
    const RVec& x = a.x();
    if (k == "unk") { for (int n = 1; n <= x.dim(); n++) r.v.push_back(x(n)); }
    else if (k == "res") { const RVec& v = a.r(); for (int n = 1; n <= v.dim(); n++) r.v.push_back(v(n)); }
    else if (k == "ssq") r.v.push_back(a.rtr());
    else if (k == "def") r.v.push_back(a.defect());
    else if (k == "qxx") r.v.push_back(a.q_xx(i, j));
    else if (k == "qbb") r.v.push_back(a.q_bb(i, j));
  });
}

static Verdict exec_adj(const Plan& plan, EventLog& log, Stats& st)
{
  std::vector<std::unique_ptr<Problem>> probs;
  for (int p = 0; p < 2; p++) { probs.emplace_back(new Problem); build_problem(*probs.back(), (uint64_t)plan.geti("prob" + std::to_string(p), p + 1)); log.line("problem %d M=%d N=%d planted-defect=%d", p, probs.back()->M, probs.back()->N, probs.back()->defect); }
  struct Obj { std::unique_ptr<GNU_gama::Adj> adj; int input = 0, alg = 0; std::vector<int> minx; int asked = 0; };
  int nobj = (int)std::max<long long>(1, plan.geti("nobj", 1));
  std::vector<Obj> objs(nobj);
  for (int o = 0; o < nobj; o++) {
    Obj& O = objs[o]; O.adj.reset(new GNU_gama::Adj); O.input = o % 2; O.alg = (int)(plan.geti("alg" + std::to_string(o), 0) % 4);
    if (plan.geti("minx" + std::to_string(o), 0)) O.minx = make_subset((uint64_t)plan.geti("minx" + std::to_string(o), 0), (int)plan.geti("minxk" + std::to_string(o), 0), probs[O.input]->N);
    O.adj->set(adj_input(*probs[O.input], O.minx)); O.adj->set_algorithm(ADJALG[O.alg]);
    log.line("adj %d %s on problem %d minx %zu", o, ALG[O.alg], O.input, O.minx.size());
  }
  std::map<std::string, Val> memo;
  const std::string BADREG = fmt("matvec:%d", (int)GNU_gama::Exception::BadRegularization);
  int n = 0;
  for (const Step& s : plan.steps) {
    Obj& O = objs[(size_t)(s.arg(0) % nobj)]; const Problem& P = *probs[O.input];
    if (s.op == "alg") { O.alg = (int)(s.arg(1) % 4); O.adj->set_algorithm(ADJALG[O.alg]); log.line("%d a%lld set_algorithm(%s)", n, s.arg(0) % nobj, ALG[O.alg]); st.add("ops.set_algorithm"); st.nontrivial = true; st.shape += fmt("adj:alg%d,", O.alg); st.state("hist", fmt("adj/set_algorithm/asked%d", std::min(O.asked, 2))); }
    else if (s.op == "set") {
      int which = (int)(s.arg(1) % 2); if (which) O.input = 1 - O.input;
      if (!O.minx.empty()) O.minx = make_subset((uint64_t)s.arg(2) + 1, (int)s.arg(3), probs[O.input]->N);
      O.adj->set(adj_input(*probs[O.input], O.minx));
      log.line("%d a%lld set(problem %d)", n, s.arg(0) % nobj, O.input); st.add("ops.set"); st.nontrivial = true; st.shape += fmt("adj:set%d,", which); st.state("hist", fmt("adj/set-%s/asked%d", which ? "other" : "same", std::min(O.asked, 2)));
    } else {
      static const char* KQ[] = {"unk", "res", "ssq", "def", "qxx", "qbb"};
      bool known = false; for (auto k : KQ) if (s.op == k) known = true;
      if (!known) { n++; continue; }
      Query q = resolve(s.op, s.arg(1), s.arg(2), P);
      Val used = ask_adj(*O.adj, s.op, q.i, q.j);
      std::string key = fmt("%d/%d/", O.alg, O.input); for (int v : O.minx) key += std::to_string(v) + ","; key += s.op + fmt("/%d/%d", q.i, q.j);
      auto it = memo.find(key);
      if (it == memo.end()) {
        GNU_gama::Adj f; f.set(adj_input(P, O.minx)); f.set_algorithm(ADJALG[O.alg]);
        it = memo.emplace(key, ask_adj(f, s.op, q.i, q.j)).first; st.add("fresh_objects");
      }
      const Val& ref = it->second;
      if (O.asked > 0) st.nontrivial = true;
      O.asked++; st.add("queries");
      if (!used.exc.empty()) st.add("fault.exception_survived");
      st.state("hist", fmt("adj/%s/%s/%s/asked%d/%s", ALG[O.alg], s.op.c_str(), P.defect ? "singular" : "regular", std::min(O.asked, 3), used.exc.empty() ? "value" : "throw"));
      log.line("%d a%lld %s(%d,%d) = %s", n, s.arg(0) % nobj, s.op.c_str(), q.i, q.j, used.str().c_str());
      st.shape += fmt("adj-%s:%s%c%c,", ALG[O.alg], s.op.c_str(), P.defect ? 's' : 'r', used.exc.empty() ? 'v' : 't');
      if (ref.exc == BADREG) { st.add("undefined_quantity_skipped"); n++; continue; }
      if (!same_val(used, ref))
        return Verdict::fail(fmt("C04:%s:adj.%s:%s", used.exc != ref.exc ? "throw-differs" : "value-differs", s.op.c_str(), ALG[O.alg]), n,
                             fmt("Adj %lld (%s, problem %d) answered %s = %s; a fresh Adj asked only that says %s", s.arg(0) % nobj, ALG[O.alg], O.input, s.op.c_str(), used.str().c_str(), ref.str().c_str()));
    }
    n++;
  }
  return Verdict();
}

Verdict HistEngine::execute(const Plan& plan, EventLog& log, Stats& st)
{
  log.line("layer %lld", plan.geti("layer", 1));
  st.add(fmt("layer%lld.runs", plan.geti("layer", 1)));
  st.add("fill." + std::to_string(plan.geti("fill", 0)));
  if (plan.geti("layer", 1) == 3) return histnet::execute(plan, log, st);
  if (plan.geti("layer", 1) == 2) return exec_adj(plan, log, st);
  return exec_solvers(plan, log, st);
}

Plan HistEngine::generate(uint64_t seed, uint64_t index, const std::string& tier)
{
  Rng g(seed);
  Plan p;
  static const int FILLS[] = {FILL_00, FILL_FF, FILL_A5, FILL_PRNG};
  p.seti("fill", FILLS[g.below(4)]);
  p.seti("refill", g.chance(1, 5) ? 1 : 0);
  if (histnet::available() && g.chance(1, 6)) { p.seti("layer", 3); histnet::generate(p, g, tier); return p; }
  if (g.chance(1, 6)) {
    p.seti("layer", 2);
    int nobj = g.chance(3, 4) ? 1 : 2; p.seti("nobj", nobj);
    p.seti("prob0", (long long)g.below(1u << 30)); p.seti("prob1", (long long)g.below(1u << 30));
    for (int o = 0; o < nobj; o++) { p.seti("alg" + std::to_string(o), (long long)g.below(4)); if (g.chance(1, 3)) { p.seti("minx" + std::to_string(o), 1 + (long long)g.below(1000)); p.seti("minxk" + std::to_string(o), (long long)g.below(9)); } }
    int len = (int)g.range(4, 24);
    static const char* Q[] = {"unk", "res", "ssq", "def", "qxx", "qxx", "qbb", "qbb", "qbb"};
    for (int i = 0; i < len; i++) {
      Step s; s.a.push_back((long long)g.below(nobj)); int r = (int)g.below(12);
      if (r < 2) { s.op = "alg"; s.a.push_back((long long)g.below(4)); }
      else if (r < 4) { s.op = "set"; s.a.push_back((long long)g.below(2)); s.a.push_back((long long)g.below(1000)); s.a.push_back((long long)g.below(9)); }
      else { s.op = Q[g.below(9)]; s.a.push_back((long long)g.below(40)); s.a.push_back(g.chance(1, 3) ? s.a.back() : (long long)g.below(40)); }
      p.steps.push_back(s);
    }
    return p;
  }
  p.seti("layer", 1);
  int nobj = g.chance(2, 3) ? 1 : (int)g.range(2, 3);
  p.seti("nobj", nobj); p.seti("nprob", 2);
  p.seti("prob0", (long long)g.below(1u << 30)); p.seti("prob1", (long long)g.below(1u << 30));
  int alg0 = (int)g.below(5);
  for (int o = 0; o < nobj; o++) p.seti("alg" + std::to_string(o), g.chance(1, 2) ? alg0 : (int)g.below(5));
  // client tasks: each a scripted stream of one flavour; the seeded scheduler interleaves them
  struct Task { int obj; int flavour; int left; };
  int ntask = (int)g.range(2, 4);
  std::vector<Task> tasks;
  for (int t = 0; t < ntask; t++) tasks.push_back({(int)g.below(nobj), (int)g.below(4), (int)g.range(3, 12)});
  static const char* F0[] = {"unk", "qxx", "qxx", "q0", "lin", "def"};           // coordinates and covariances
  static const char* F1[] = {"res", "qbb", "qbb", "ssq", "qbx", "qbb"};           // observations
  static const char* F2[] = {"unk", "res", "ssq", "def", "cond", "qxx", "qbb", "q0"};   // report writer
  while (!tasks.empty()) {
    size_t t = g.below(tasks.size()); Task& T = tasks[t];
    Step s; s.a.push_back(T.obj);
    if (T.flavour == 0) { s.op = F0[g.below(6)]; s.a.push_back((long long)g.below(40)); s.a.push_back((long long)g.below(40)); }
    else if (T.flavour == 1) { s.op = F1[g.below(6)]; s.a.push_back((long long)g.below(40)); s.a.push_back((long long)g.below(40)); }
    else if (T.flavour == 2) { s.op = F2[g.below(8)]; s.a.push_back((long long)g.below(40)); s.a.push_back(g.chance(1, 2) ? s.a.back() : (long long)g.below(40)); }
    else {   // invalidate and re-ask
      int r = (int)g.below(10);
      if (r < 3) { s.op = "minsub"; s.a.push_back((long long)g.below(1000)); s.a.push_back((long long)g.below(9)); }
      else if (r < 4) s.op = "minall";
      else if (r < 7) { s.op = "reset"; s.a.push_back((long long)g.below(3)); s.a.push_back((long long)g.below(1000)); s.a.push_back((long long)g.below(9)); }
      else { s.op = F2[g.below(8)]; s.a.push_back((long long)g.below(40)); s.a.push_back((long long)g.below(40)); }
    }
    p.steps.push_back(s);
    if (--T.left == 0) tasks.erase(tasks.begin() + t);
  }
  return p;
}

std::vector<Plan> HistEngine::simplify(const Plan& p)
{
  std::vector<Plan> out;
  if (p.geti("refill", 0)) { Plan c = p; c.seti("refill", 0); out.push_back(c); }
  if (p.geti("layer", 1) == 1 && p.geti("nobj", 1) > 1) { Plan c = p; c.seti("nobj", 1); out.push_back(c); }
  return out;
}

} // namespace

int main(int argc, char** argv)
{
  HistEngine e;
  return sim::driver_main(argc, argv, e);
}

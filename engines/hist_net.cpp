// Layer 3 of sim_hist (C04): histories of queries, invalidations and the
// state-changing steps of gama-local against LocalNetwork objects, every answer
// compared with a fresh network built from the same document and asked only that.
#include "engines/hist_net.h"
#include "engines/gama_net.h"
#include "engines/io_events.h"

using namespace sim;
using GNU_gama::local::LocalNetwork;
using GNU_gama::local::PointID;
using GNU_gama::Exception::matvec;

namespace histnet {

static std::vector<gnet::Doc> g_docs;
static const char* ALGS[] = {"envelope", "cholesky", "gso", "svd"};

void init()
{
  GNU_gama::local::set_gama_language(GNU_gama::local::en);
  if (g_docs.empty()) {
    g_docs = gnet::load_dir(gnet::corpus_root() + "/gkf", ".gkf", 4500);
    // plus 24 grammar-derived networks (3D, points without given coordinates, constrained points, vectors,
    // levelling), the same for every process: they are built from a fixed generator
    if (!g_docs.empty()) for (int k = 0; k < 24; k++) { sim::Rng g(0x5eedULL * 1000003ULL + (uint64_t)k); gnet::Doc d; d.name = fmt("synthetic-gkf-%02d", k); d.bytes = ioev::tidy_network(g); g_docs.push_back(d); }
  }
}
bool available() { return !g_docs.empty(); }

struct Val {
  std::string exc; std::vector<double> v; std::string text; bool is_text = false;
  int nu = 0, no = 0;              // sizes the indices were resolved against (taken from the reference)
  std::string str() const
  {
    if (!exc.empty()) return "throw:" + exc;
    if (is_text) return fmt("text[%zu bytes, fnv %016llx]", text.size(), (unsigned long long)fnv(text));
    std::string s; for (size_t i = 0; i < v.size() && i < 8; i++) { if (i) s += ","; s += hexfloat(v[i]); } if (v.size() > 8) s += fmt(",..(%zu)", v.size());
    return s;
  }
};

static bool same_val(const Val& a, const Val& b, std::string& where)
{
  if (a.exc != b.exc) { where = "exception category"; return false; }
  if (a.is_text) return a.text == b.text || gnet::tokens_equal(a.text, b.text, 1e-12, &where);
  if (a.v.size() != b.v.size()) { where = "length"; return false; }
  double sc = 1; for (double x : b.v) if (std::isfinite(x)) sc = std::max(sc, std::fabs(x));
  for (size_t i = 0; i < a.v.size(); i++) {
    double x = a.v[i], y = b.v[i];
    if ((std::isnan(x) && std::isnan(y)) || x == y) continue;
    if (!(std::fabs(x - y) <= 1e-12 * sc)) { where = fmt("element %zu", i); return false; }
  }
  return true;
}

template <class F> static Val guarded(F f)
{
  Val r;
  try { f(r); }
  catch (const matvec& e) { r = Val(); r.exc = fmt("matvec:%d", e.error()); }
  catch (const GNU_gama::local::ParserException&) { r = Val(); r.exc = "parser"; }
  catch (const GNU_gama::local::Exception& e) { r = Val(); r.exc = "local"; if (getenv("VERIF_DEBUG_EXC")) fprintf(stderr, "local exception: %s\n", e.what()); }
  catch (const GNU_gama::Exception::adjustment&) { r = Val(); r.exc = "adjustment"; }
  catch (const GNU_gama::Exception::base&) { r = Val(); r.exc = "gama"; }
  return r;
}

// ---- building a network the way gama-local's main() does ------------------------
struct Built { std::unique_ptr<LocalNetwork> net; bool adjustable = false; std::string why; };

// "passive:k": the k-th observation (in document order, modulo) is switched off and the network told so.  In a used
// object this happens after adjustments; the reference gets it before its first adjustment.  Such a step is only
// generated while no coordinate-changing step has happened, so both orders describe the same input.
static void set_passive(LocalNetwork* n, long long k)
{
  std::vector<GNU_gama::local::Observation*> all;
  for (auto* cl : n->OD.clusters) for (auto* ob : cl->observation_list) all.push_back(ob);
  if (all.empty()) return;
  // k >= 1000: the first 2..7 observations of the document at once (unknowns are numbered in the order in which active
  // observations first mention a point: taking a prefix away renumbers them, and with them whatever index list an
  // object keeps from its last adjustment)
  if (k >= 1000) { size_t len = 2 + (size_t)((k - 1000) % 6); for (size_t i = 0; i < len && i + 1 < all.size(); i++) all[i]->set_passive(); }
  else all[(size_t)(k % (long long)all.size())]->set_passive();
  n->update_observations();
}

// "fixpt:k": the k-th adjusted point (in identifier order, modulo) becomes a FIXED point - the caller edits PD and tells
// the network with update_points().  Handled like "passive:k": the reference gets the first such edit before its first
// adjustment, later ones in sequence.
static void set_fixed_point(LocalNetwork* n, long long k)
{
  std::vector<GNU_gama::local::LocalPoint*> free_pts;
  for (auto& kv : n->PD) if (kv.second.free_xy() || kv.second.free_z()) free_pts.push_back(&kv.second);
  if (free_pts.size() < 2) return;                       // the last adjusted point stays
  GNU_gama::local::LocalPoint* p = free_pts[(size_t)(k % (long long)free_pts.size())];
  if (p->free_xy() && p->test_xy()) p->set_fixed_xy();
  if (p->free_z() && p->test_z()) p->set_fixed_z();
  n->update_points();
}
static bool is_edit(const std::string& c) { return c.compare(0, 8, "passive:") == 0 || c.compare(0, 6, "fixpt:") == 0; }
static void do_edit(LocalNetwork* n, const std::string& c);

// what gama-local does first with a network whose observations changed: GeneralParameters() -> null_space(), which
// also removes points that have become singular.  The reference does it when it is built.
static void settle(LocalNetwork* n)
{
  try { n->null_space(); } catch (const GNU_gama::Exception::base&) {} catch (const GNU_gama::local::Exception&) {}
}

// "par:*": a parameter of the statistical analysis is set (type of m_0, confidence probability).  It is input, not a
// query: a used object gets it between queries, the reference before its first adjustment.
static bool is_par(const std::string& c) { return c.compare(0, 4, "par:") == 0; }
static void set_par(LocalNetwork* n, const std::string& c)
{
  static const double CP[] = {0.95, 0.99, 0.90, 0.5};
  if (c == "par:a") n->set_m_0_apriori();
  else if (c == "par:p") n->set_m_0_aposteriori();
  else if (c.compare(0, 5, "par:c") == 0) n->conf_pr(CP[atoi(c.c_str() + 5) % 4]);
  else if (c == "par:u0") n->set_gons();
  else if (c == "par:u1") n->set_degrees();
  else if (c.compare(0, 5, "par:s") == 0) { static const double M0[] = {5, 20, 10, 1}; n->apriori_m_0(M0[atoi(c.c_str() + 5) % 4]); n->update_residuals(); }   // a priori reference standard deviation; the setter leaves the notification to the caller
}

static void do_edit(LocalNetwork* n, const std::string& c)
{
  if (c.compare(0, 8, "passive:") == 0) set_passive(n, atoll(c.c_str() + 8));
  else if (c.compare(0, 6, "fixpt:") == 0) set_fixed_point(n, atoll(c.c_str() + 6));
}

static void apply_change(LocalNetwork* n, const std::string& c)
{
  if (is_par(c)) set_par(n, c);
  else if (c == "refine") n->refine_adjustment();
  else if (c == "refcoord") { n->solve(); n->refine_approx_coordinates(); }
  else if (c.compare(0, 4, "alg:") == 0) n->set_algorithm(c.substr(4));
  else if (is_edit(c)) { do_edit(n, c); settle(n); }
  else if (c == "upd:0") n->update_points();
  else if (c == "upd:1") n->update_observations();
  else if (c == "upd:2") n->update_residuals();
  else if (c == "upd:3") n->update_adjustment();
}

static Built build(const gnet::Doc& d, const std::string& alg0, const std::vector<std::string>& changes)
{
  Built b; b.net.reset(new LocalNetwork);
  Val r = guarded([&](Val&) {
    gnet::parse_gkf(*b.net, d.bytes);
    b.net->set_gons();
    gnet::Prep p = gnet::prepare_like_main(b.net.get(), alg0, [&](LocalNetwork* n) {
      // parameters, and the FIRST observation switched off, before the first adjustment.  Later ones follow in sequence
      // with an adjustment after each, as in the used object: which points an adjustment removes (singular,
      // indeterminable) is decided round by round and never taken back, so "three observations off, then adjust" and
      // "one off, adjust, the next off, adjust, ..." are different inputs.
      // The angular unit of the presentation (par:u*) is a plain setting: the reference is told the LAST one only, a
      // used object every one in turn.
      bool first = true; size_t last_u = changes.size();
      for (size_t q = 0; q < changes.size(); q++) if (changes[q].compare(0, 5, "par:u") == 0) last_u = q;
      for (size_t q = 0; q < changes.size(); q++) { auto& c = changes[q];
        if (is_edit(c)) { if (first) do_edit(n, c); first = false; }
        else if (c.compare(0, 5, "par:u") == 0) { if (q == last_u) set_par(n, c); }
        else if (is_par(c)) set_par(n, c); }
    });
    b.adjustable = p.adjustable; b.why = p.why;
    bool first = true;
    if (b.adjustable) for (auto& c : changes) {
      if (is_par(c)) continue;
      if (is_edit(c)) { if (first) { first = false; continue; } }
      apply_change(b.net.get(), c);
    }
  });
  if (!r.exc.empty()) { b.adjustable = false; b.why = "exception " + r.exc; }
  return b;
}

// The list of removed points is a LOG: it is kept in the order in which the adjustment rounds removed the points,
// which is history by construction (a point removed after the first change, two more after the second, against all
// three in one round of a fresh network).  The set is an answer, the order is not: runs of such lines are sorted.
static std::string canon_removed_lists(const std::string& t)
{
  static const char* MARK[] = {"indeterminable coordinate", "missing coordiantes", "singular coordiante", "'left'>missing x", "'left'>missing z",
                               "'left'>singular xy<", "'left'>singular z<", "'left'>huge cov "};
  auto is_log = [&](const std::string& l) { for (auto m : MARK) if (l.find(m) != std::string::npos) return true; return false; };
  std::vector<std::string> lines; size_t p = 0;
  while (p <= t.size()) { size_t e = t.find('\n', p); if (e == std::string::npos) { lines.push_back(t.substr(p)); break; } lines.push_back(t.substr(p, e - p)); p = e + 1; }
  for (size_t i = 0; i < lines.size();) {
    if (!is_log(lines[i])) { i++; continue; }
    size_t j = i; while (j < lines.size() && is_log(lines[j])) j++;
    std::sort(lines.begin() + (long)i, lines.begin() + (long)j); i = j;
  }
  std::string o; for (size_t i = 0; i < lines.size(); i++) { if (i) o += "\n"; o += lines[i]; }
  return o;
}

// ---- queries ------------------------------------------------------------------------
static const char* QK[] = {
  "solve", "residuals", "trans_VWV", "m_0", "dof", "null_space", "unknowns_count", "observations_count", "qxx", "qbb",
  "stdev_obs", "wcoef_res", "stdev_res", "studentized", "obs_control", "unknown_stdev", "ellipse", "conf_int_coef", "cond",
  "lindep", "connected", "rhs", "weight_obs", "test_abs_term", "huge_abs_terms", "m0_aposteriori",
  "doc:xml", "doc:general", "doc:unknowns", "doc:ellipses", "doc:adjobs", "doc:residuals", "doc:fixed", "doc:html", "doc:octave", "doc:svg", "doc:export"};
static const int NQK = sizeof QK / sizeof QK[0];

static Val ask(LocalNetwork* n, const std::string& k, long long a, long long b, int given_nu = 0, int given_no = 0)
{
  return guarded([&](Val& r) {
    // queries that read the solver directly carry the precondition "adjusted": state it the same way for used and fresh
    n->solve();
    // The used object is NOT asked for its counts first: unknowns_count()/observations_count() run project_equations(),
    // which would repair a stale adjustment flag just before the query under test.  Indices are resolved against
    // the sizes of the reference.
    int nu = given_nu ? given_nu : std::max(n->unknowns_count(), 1), no = given_no ? given_no : std::max(n->observations_count(), 1);
    r.nu = nu; r.no = no;
    int i = 1 + (int)(a % nu), j = 1 + (int)(b % nu), oi = 1 + (int)(a % no), oj = 1 + (int)(b % no);
    if (k == "solve") { const auto& x = n->solve(); for (int q = 1; q <= x.dim(); q++) r.v.push_back(x(q)); }
    else if (k == "residuals") { const auto& x = n->residuals(); for (int q = 1; q <= x.dim(); q++) r.v.push_back(x(q)); }
    else if (k == "trans_VWV") r.v.push_back(n->trans_VWV());
    else if (k == "m_0") r.v.push_back(n->m_0());
    else if (k == "dof") r.v.push_back(n->degrees_of_freedom());
    else if (k == "null_space") r.v.push_back(n->null_space());
    else if (k == "unknowns_count") r.v.push_back(n->unknowns_count());
    else if (k == "observations_count") r.v.push_back(n->observations_count());
    else if (k == "qxx") r.v.push_back(n->qxx(i, j));
    else if (k == "qbb") r.v.push_back(n->qbb(oi, oj));
    else if (k == "stdev_obs") r.v.push_back(n->stdev_obs(oi));
    else if (k == "wcoef_res") r.v.push_back(n->wcoef_res(oi));
    else if (k == "stdev_res") r.v.push_back(n->stdev_res(oi));
    else if (k == "studentized") r.v.push_back(n->studentized_residual(oi));
    else if (k == "obs_control") r.v.push_back(n->obs_control(oi));
    else if (k == "unknown_stdev") r.v.push_back(n->unknown_stdev(i));
    else if (k == "ellipse") {
      std::vector<PointID> ids; for (auto& kv : n->PD) if (kv.second.free_xy() && kv.second.index_x()) ids.push_back(kv.first);
      if (!ids.empty()) { double ea, eb, al; n->std_error_ellipse(ids[(size_t)(a % (long long)ids.size())], ea, eb, al); r.v = {ea, eb, al}; }
    }
    else if (k == "conf_int_coef") r.v.push_back(n->conf_int_coef());
    else if (k == "cond") r.v.push_back(n->cond());
    else if (k == "lindep") r.v.push_back(n->lindep(i) ? 1 : 0);
    else if (k == "connected") r.v.push_back(n->connected_network() ? 1 : 0);
    else if (k == "rhs") r.v.push_back(n->rhs(oi));
    else if (k == "weight_obs") r.v.push_back(n->weight_obs(oi));
    else if (k == "test_abs_term") r.v.push_back(n->test_abs_term(oi));
    else if (k == "huge_abs_terms") r.v.push_back(n->huge_abs_terms() ? 1 : 0);
    else if (k == "m0_aposteriori") r.v.push_back(n->m_0_aposteriori_value());
    else {
      r.is_text = true; std::ostringstream o; GNU_gama::OutStream out(&o);
      if (k == "doc:xml") { GNU_gama::LocalNetworkXML x(n); x.write(o); }
      else if (k == "doc:general") GeneralParameters(n, out);
      else if (k == "doc:unknowns") AdjustedUnknowns(n, out);
      else if (k == "doc:ellipses") ErrorEllipses(n, out);
      else if (k == "doc:adjobs") AdjustedObservations(n, out);
      else if (k == "doc:residuals") ResidualsObservations(n, out);
      else if (k == "doc:fixed") FixedPoints(n, out);
      else if (k == "doc:html") { GNU_gama::local::GamaLocalHTML h(n); h.exec(); h.html(o); }
      else if (k == "doc:octave") { GNU_gama::LocalNetworkOctave x(n); x.write(o); }
      else if (k == "doc:svg") { GNU_gama::local::GamaLocalSVG s(n); s.draw(o); }
      else if (k == "doc:export") o << n->export_xml("");
      r.text = canon_removed_lists(o.str());
    }
  });
}

struct NetObj { Built b; int doc = 0; std::string alg0; std::vector<std::string> changes; int asked = 0; };

Verdict execute(const Plan& plan, EventLog& log, Stats& st)
{
  init();
  int nobj = (int)plan.geti("nobj", 1);
  std::vector<NetObj> objs(nobj);
  for (int o = 0; o < nobj; o++) {
    objs[o].doc = (int)(plan.geti("doc" + std::to_string(o), 0) % (long long)g_docs.size());
    objs[o].alg0 = ALGS[plan.geti("alg" + std::to_string(o), 0) % 4];
    objs[o].b = build(g_docs[objs[o].doc], objs[o].alg0, {});
    log.line("object %d %s %s adjustable=%d %s", o, g_docs[objs[o].doc].name.c_str(), objs[o].alg0.c_str(), (int)objs[o].b.adjustable, objs[o].b.why.c_str());
    st.add("networks_built");
  }
  std::map<std::string, Val> memo;
  int n = 0;
  for (const Step& s : plan.steps) {
    NetObj& O = objs[(size_t)(s.arg(0) % nobj)];
    LocalNetwork* net = O.b.net.get();
    if (!O.b.adjustable) { n++; continue; }
    const std::string& op = s.op;
    if (op == "upd") {
      int w = (int)(s.arg(1) % 4);
      // update_*() is a notification that the input changed (revision_points() then takes the current coordinates as
      // the new initial values x_0, which AdjustedUnknowns prints), not a pure cache flush: the reference gets it too
      apply_change(net, fmt("upd:%d", w)); O.changes.push_back(fmt("upd:%d", w));
      log.line("%d o%lld update(%d)", n, s.arg(0) % nobj, w); st.add("ops.update"); st.nontrivial = true; st.shape += fmt("net:upd%d,", w);
      st.state("hist", fmt("net/update%d/asked%d", w, std::min(O.asked, 2)));
    } else if (op == "par") {
      int w = (int)(s.arg(1) % 5);
      if (w == 4) {
        // gons or degrees: Observation::gons is one process-wide switch behind LocalNetwork::set_gons()/set_degrees()
        // (see DESIGN 10.5), so the step tells every object of the run
        std::string c = fmt("par:u%d", (int)(s.arg(2) % 2));
        for (auto& Q : objs) if (Q.b.adjustable) { apply_change(Q.b.net.get(), c); Q.changes.push_back(c); }
        log.line("%d all %s", n, c.c_str()); st.add("ops.parameter"); st.nontrivial = true; st.shape += "net:" + c + ",";
        st.state("hist", fmt("net/%s/asked%d", c.c_str(), std::min(O.asked, 2)));
        n++; continue;
      }
      // (the a priori m0 scales the project equations: once approximate coordinates were moved by corrections computed
      //  under the old scale, "given before the first adjustment" would be another input at round-off level)
      // (nor after an edit: the adjustment that follows an edit decides which points it removes as singular, a numerical
      //  test that depends on the a priori m0 in force - seen with a prefix of observations switched off at m0 = 10 (two
      //  unknowns removed) against m0 = 5 (kept) - and never takes the removal back; "edit under the old m0, then the
      //  new m0" and "new m0, then the edit" are different inputs, like an edit after a switch of the algorithm)
      if (w == 3) { bool moved = false; for (auto& c0 : O.changes) if (c0 == "refine" || c0 == "refcoord" || is_edit(c0)) moved = true; if (moved) { n++; continue; } }
      std::string c = w == 0 ? "par:a" : w == 1 ? "par:p" : w == 2 ? fmt("par:c%d", (int)(s.arg(2) % 4)) : fmt("par:s%d", (int)(s.arg(2) % 4));
      apply_change(net, c); O.changes.push_back(c);
      log.line("%d o%lld %s", n, s.arg(0) % nobj, c.c_str()); st.add("ops.parameter"); st.nontrivial = true; st.shape += "net:" + c + ",";
      st.state("hist", fmt("net/%s/asked%d", c.substr(0, 5).c_str(), std::min(O.asked, 2)));
    } else if (op == "chg") {
      int w = (int)(s.arg(1) % 7);
      // (nor after a switch to another algorithm: the reference takes the observation out before its FIRST adjustment,
      // which runs under the initial algorithm, and which points an adjustment removes as singular or indeterminable
      // is decided numerically by the algorithm in force - after a switch the two orders are different inputs)
      bool moved = false; for (auto& c0 : O.changes) if (c0 == "refine" || c0 == "refcoord" || c0.compare(0, 5, "par:s") == 0 || (c0.compare(0, 4, "alg:") == 0 && c0.substr(4) != O.alg0)) moved = true;
      if ((w == 5 || w == 6) && moved) { n++; continue; }
      std::string c = w == 6 ? fmt("fixpt:%lld", s.arg(2) % 1000) : w == 5 ? fmt("passive:%lld", s.arg(2) % 1006) : w == 0 ? "refine" : w == 1 ? "refcoord" : w == 2 ? "alg:" + (O.changes.empty() ? O.alg0 : O.alg0) : w == 3 ? std::string("alg:") + ALGS[s.arg(2) % 4] : "alg:" + O.alg0;
      Val r = guarded([&](Val&) { apply_change(net, c); });
      O.changes.push_back(c);
      log.line("%d o%lld change %s %s", n, s.arg(0) % nobj, c.c_str(), r.exc.c_str()); st.add("ops.change"); st.nontrivial = true; st.shape += "net:" + c.substr(0, 7) + ",";
      st.state("hist", fmt("net/%s/asked%d", c.substr(0, 4).c_str(), std::min(O.asked, 2)));
      if (!r.exc.empty()) { st.add("fault.exception_survived"); }
    } else if (op == "q") {
      std::string k = QK[s.arg(1) % NQK];
      long long qa = s.arg(2) % 64, qb = s.arg(3) % 64;
      // reference: a fresh network from the same document, the same state-changing steps, asked only this
      std::string key = fmt("%d/%s/", O.doc, O.alg0.c_str()); for (auto& c : O.changes) key += c + ";"; key += k + fmt("/%lld/%lld", qa, qb);
      auto it = memo.find(key);
      if (it == memo.end()) {
        Built f = build(g_docs[O.doc], O.alg0, O.changes);
        st.add("fresh_objects");
        Val ref; if (f.adjustable) ref = ask(f.net.get(), k, qa, qb); else ref.exc = "not-adjustable";
        it = memo.emplace(key, ref).first;
      }
      const Val& ref = it->second;
      Val used = ask(net, k, qa, qb, ref.nu, ref.no);
      if (O.asked > 0) st.nontrivial = true;
      O.asked++; st.add("queries");
      if (!used.exc.empty()) st.add("fault.exception_survived");
      st.state("hist", fmt("net/%s/%s/asked%d/%s", O.alg0.c_str(), k.c_str(), std::min(O.asked, 3), used.exc.empty() ? "value" : "throw"));
      log.line("%d o%lld %s(%lld,%lld) = %s", n, s.arg(0) % nobj, k.c_str(), qa, qb, used.str().c_str());
      st.shape += fmt("net-%s:%s%c,", O.alg0.c_str(), k.c_str(), used.exc.empty() ? 'v' : 't');
      const std::string BADREG = fmt("matvec:%d", (int)GNU_gama::Exception::BadRegularization);
      if (ref.exc == BADREG || ref.exc == "not-adjustable") { st.add("undefined_quantity_skipped"); n++; continue; }
      std::string where;
      if (!same_val(used, ref, where)) {
        if (const char* dd = getenv("VERIF_DUMP_DIR")) { sim::write_file(std::string(dd) + "/used.txt", used.is_text ? used.text : used.str()); sim::write_file(std::string(dd) + "/fresh.txt", ref.is_text ? ref.text : ref.str()); }   // debugging aid
        return Verdict::fail(fmt("C04:%s:net.%s:%s", used.exc != ref.exc ? "throw-differs" : "value-differs", k.c_str(), O.alg0.c_str()), n,
                             fmt("network %s (%s, changes %zu) answered %s = %s; a fresh network asked only that says %s (%s)",
                                 g_docs[O.doc].name.c_str(), O.alg0.c_str(), O.changes.size(), k.c_str(), used.str().c_str(), ref.str().c_str(), where.c_str()));
      }
    }
    n++;
  }
  return Verdict();
}

void generate(Plan& p, Rng& g, const std::string&)
{
  init();
  int nobj = g.chance(3, 4) ? 1 : 2;
  p.seti("nobj", nobj);
  for (int o = 0; o < nobj; o++) { p.seti("doc" + std::to_string(o), (long long)g.below(g_docs.size())); p.seti("alg" + std::to_string(o), (long long)g.below(4)); }
  // two live objects of the SAME input (same sizes, same degrees of freedom) are where state shared between objects
  // - a static cache keyed by a size, a class-level switch - would show
  if (nobj == 2 && g.chance(1, 2)) {
    p.seti("doc1", p.geti("doc0", 0));
    if (g.chance(1, 2)) {
      // cross-talk script: one of the twins gets another parameter, then both are asked the same statistical
      // question in turn, twice (the second round is answered without any fresh object being built in between)
      static const char* X[] = {"conf_int_coef", "doc:xml", "doc:general", "studentized", "stdev_res", "unknown_stdev", "ellipse", "doc:adjobs", "doc:unknowns", "m_0", "stdev_obs"};
      auto qi = [&](const char* name) { for (int i = 0; i < NQK; i++) if (std::string(QK[i]) == name) return i; return 0; };
      { Step s; s.op = "par"; s.a = {0, (long long)g.below(5), (long long)g.range(1, 3)}; p.steps.push_back(s); }
      int k = qi(X[g.below(11)]); long long a = (long long)g.below(64);
      for (int round = 0; round < 2; round++) for (int o = 0; o < 2; o++) { Step s; s.op = "q"; s.a = {o, k, a, a}; p.steps.push_back(s); }
    }
  }
  int ntask = (int)g.range(2, 4);
  struct Task { int obj, flavour, left; };
  std::vector<Task> tasks;
  for (int t = 0; t < ntask; t++) tasks.push_back({(int)g.below(nobj), (int)g.below(4), (int)g.range(2, 8)});
  auto qidx = [&](const char* name) { for (int i = 0; i < NQK; i++) if (std::string(QK[i]) == name) return i; return 0; };
  static const char* F0[] = {"solve", "qxx", "unknown_stdev", "ellipse", "lindep", "null_space", "cond", "doc:unknowns", "doc:ellipses"};
  static const char* F1[] = {"residuals", "qbb", "stdev_obs", "wcoef_res", "stdev_res", "studentized", "obs_control", "rhs", "weight_obs", "test_abs_term", "doc:adjobs", "doc:residuals"};
  static const char* F2[] = {"doc:xml", "doc:general", "doc:html", "doc:octave", "doc:svg", "doc:export", "doc:fixed", "trans_VWV", "m_0", "dof", "m0_aposteriori", "conf_int_coef", "connected", "huge_abs_terms", "unknowns_count", "observations_count"};
  while (!tasks.empty()) {
    size_t t = g.below(tasks.size()); Task& T = tasks[t];
    Step s; s.a.push_back(T.obj);
    auto query = [&](const char* k) { s.op = "q"; s.a.push_back(qidx(k)); s.a.push_back((long long)g.below(64)); s.a.push_back(g.chance(1, 2) ? s.a.back() : (long long)g.below(64)); };
    if (T.flavour == 0) query(F0[g.below(9)]);
    else if (T.flavour == 1) query(F1[g.below(12)]);
    else if (T.flavour == 2) query(F2[g.below(16)]);
    else {
      int r = (int)g.below(10);
      if (r < 3) { s.op = "upd"; s.a.push_back((long long)g.below(4)); }
      else if (r < 5) { s.op = "par"; s.a.push_back((long long)g.below(5)); s.a.push_back((long long)g.below(4)); }
      else if (r < 7) { s.op = "chg"; long long w = (long long)g.below(8); if (w == 7) w = 5; s.a.push_back(w); s.a.push_back((long long)g.below(w >= 5 ? 1000 : 4));
        // (unknowns are numbered in the order in which active observations first mention a point: switching off one of the
        //  FIRST observations renumbers them, and with them whatever index list is kept from the last adjustment)
        if (w == 5 && g.chance(1, 3)) s.a.back() = g.chance(1, 2) ? (long long)g.below(3) : 1000 + (long long)g.below(6); }
      else query(g.chance(1, 2) ? F0[g.below(9)] : F1[g.below(12)]);
    }
    p.steps.push_back(s);
    if (--T.left == 0) tasks.erase(tasks.begin() + t);
  }
}

} // namespace histnet

// sim_io — C11: any input is either adjusted or refused with a located
// diagnostic, safely (DESIGN.md section 5).
//
// The system under simulation is the consumer of a byte stream: gama-local's
// main() behind the emulated process boundary, and the push parsers driven
// directly.  The simulator owns the transport (chunking, early end, error,
// lost / duplicated / swapped chunks, corrupted bytes), the option vector and the
// heap fill pattern.  Indices below enumerated_count() are complete single-fault
// sweeps (end of stream / split point at EVERY byte); the rest is seeded.
#include "sim/sim.h"
#include "engines/gama_net.h"
#include "engines/procemu.h"
#include "engines/xmlscan.h"
#include "engines/io_targets.h"
#include "engines/io_events.h"

#include <gnu_gama/xml/gkfparser.h>

using namespace sim;

namespace {

std::vector<gnet::Doc> g_gkf, g_adj, g_g3;
std::vector<int> g_sweep;                 // indices into g_gkf, the documents swept in this tier
std::vector<size_t> g_sweep_off;          // prefix sums of 2*len
std::vector<ioev::Space> g_spaces;        // enumerated event-sequence spaces (class iii), after the document sweeps
std::vector<uint64_t> g_space_off;        // their first indices; back() = end of the event spaces
uint64_t g_scale_first = 0;               // the documents of extreme size follow: n_scale_docs() more enumerated indices
std::string g_tier = "quick";

void load_all()
{
  if (!g_gkf.empty()) return;
  GNU_gama::local::set_gama_language(GNU_gama::local::en);
  g_gkf = gnet::load_dir(gnet::corpus_root() + "/gkf", ".gkf", 12288);
  g_adj = gnet::load_dir(gnet::corpus_root() + "/adjxml", ".xml", 40000);
  g_g3 = gnet::load_dir(gnet::corpus_root() + "/g3", ".xml", 60000);
}

void setup_sweep(const std::string& tier)
{
  load_all();
  g_tier = tier; g_sweep.clear(); g_sweep_off.assign(1, 0);
  std::vector<int> order(g_gkf.size()); for (size_t i = 0; i < order.size(); i++) order[i] = (int)i;
  std::stable_sort(order.begin(), order.end(), [](int a, int b) { return g_gkf[a].bytes.size() < g_gkf[b].bytes.size(); });
  size_t cap = tier == "thorough" ? order.size() : 10, total = 0;
  // per swept document of length L: [0,L) end of stream at k through main(); [L,2L) the same through GKFparser;
  // [2L,3L) two-chunk split at k through GKFparser; [3L,3L+L/4] split at every 4th byte through main()
  for (size_t i = 0; i < order.size() && g_sweep.size() < cap; i++) {
    size_t L = g_gkf[order[i]].bytes.size();
    g_sweep.push_back(order[i]); total += 3 * L + (L + 3) / 4; g_sweep_off.push_back(total);
  }
  g_spaces = ioev::spaces(tier); g_space_off.assign(1, total);
  for (auto& sp : g_spaces) g_space_off.push_back(g_space_off.back() + sp.count);
  g_scale_first = g_space_off.back();
}

// ------------------------------------------------------------ hostile data ---
const char* HOSTILE[] = {"1e999", "-1e999", "nan", "inf", "-", "+", "1.", ".", ".5", "0x10", "1e", "1e+", "--1", "1,5", "", " ", "12 34",
                         "1234567890123456789012345678901234567890", "-0", "0", "-1", "1e-400", "9999999999", "2147483648", "4294967296",
                         "00000000000000000001", "1e5", "100-00-00", "360-0-0", "-10-20-30", "10-61-00", "10-20-30.5.5", "<", "&amp;", "&#0;", "&#x41;", "\xc3\xa9", "\xff",
                         "3", "2", "1", "7", "yes", "no", "fixed", "FIXED", "xyz", "XYZ", "xy", "z", "ne", "sw", "left-handed", "right-handed", "apriori", "aposteriori"};
const int NHOSTILE = sizeof HOSTILE / sizeof HOSTILE[0];

bool looks_float(const std::string& v)
{
  if (v.empty()) return false; bool digit = false;
  for (char c : v) { if (c >= '0' && c <= '9') digit = true; else if (c != '.' && c != '-' && c != '+' && c != 'e' && c != 'E') return false; }
  if (!digit) return false;
  if (v.find('-', 1) != std::string::npos && v.find('e') == std::string::npos && v.find('E') == std::string::npos) return false;   // dd-mm-ss
  return GNU_gama::IsFloat(v);
}
// attributes that hold floating point numbers in gama-local input (doc/gama-local-input.texi); the integer
// attributes dim, band, cov-band, iterations and the enumerations are never re-spelled
bool float_attr(const std::string& n)
{
  static const char* F[] = {"x", "y", "z", "val", "stdev", "dx", "dy", "dz", "from_dh", "to_dh", "bs_dh", "fs_dh", "dist", "sigma-apr", "conf-pr", "tol-abs",
                            "direction-stdev", "angle-stdev", "zenith-angle-stdev", "azimuth-stdev", "distance-stdev"};
  for (auto f : F) if (n == f) return true; return false;
}

// --------------------------------------------------------------- documents ---
// Apply one document-level step to `d`.  Returns false when the step does not apply (it is then a no-op).
bool apply_edit(std::string& d, const Step& st, bool& validity_preserving)
{
  const std::string& op = st.op;
  if (d.empty()) return false;
  if (op == "flip") { size_t p = (size_t)st.arg(0) % d.size(); d[p] = (char)(d[p] ^ (1 << (st.arg(1) % 8))); validity_preserving = false; return true; }
  if (op == "setb") { size_t p = (size_t)st.arg(0) % d.size(); d[p] = (char)(st.arg(1) % 256); validity_preserving = false; return true; }
  if (op == "ins") { size_t p = (size_t)st.arg(0) % (d.size() + 1); d.insert(p, 1, (char)(st.arg(1) % 256)); validity_preserving = false; return true; }
  if (op == "delb") { size_t p = (size_t)st.arg(0) % d.size(); size_t l = 1 + (size_t)st.arg(1) % 16; d.erase(p, l); validity_preserving = false; return true; }
  if (op == "lost") { size_t p = (size_t)st.arg(0) % d.size(); size_t l = 1 + (size_t)st.arg(1) % 200; d.erase(p, l); validity_preserving = false; return true; }
  if (op == "dupc") { size_t p = (size_t)st.arg(0) % d.size(); size_t l = 1 + (size_t)st.arg(1) % 200; std::string c = d.substr(p, l); d.insert(p, c); validity_preserving = false; return true; }
  if (op == "swapc") { size_t p = (size_t)st.arg(0) % d.size(); size_t l1 = 1 + (size_t)st.arg(1) % 100, l2 = 1 + (size_t)st.arg(2) % 100;
                       std::string a = d.substr(p, l1), b = d.substr(std::min(d.size(), p + l1), l2); d.replace(p, a.size() + b.size(), b + a); validity_preserving = false; return true; }
  if (op == "torn") { load_all(); const std::string& o = g_gkf[(size_t)st.arg(0) % g_gkf.size()].bytes; size_t p = (size_t)st.arg(1) % d.size(), q = (size_t)st.arg(2) % o.size(); d = d.substr(0, p) + o.substr(q); validity_preserving = false; return true; }
  if (op == "trunc" || op == "err") { size_t p = (size_t)st.arg(0) % (d.size() + 1); d.resize(p); validity_preserving = false; return true; }

  xmlscan::Scan S = xmlscan::scan(d);
  // flat list of attributes
  struct AR { int tag; int a; }; std::vector<AR> attrs;
  for (size_t t = 0; t < S.tags.size(); t++) for (size_t a = 0; a < S.tags[t].attrs.size(); a++) attrs.push_back({(int)t, (int)a});
  std::vector<int> elems; for (size_t t = 0; t < S.tags.size(); t++) if (S.tags[t].start && S.tags[t].name != "gama-local" && S.tags[t].name != "gama-local-adjustment" && S.tags[t].name != "gnu-gama-data") elems.push_back((int)t);
  auto attr = [&](long long k) -> const xmlscan::Attr* { if (attrs.empty()) return nullptr; const AR& r = attrs[(size_t)k % attrs.size()]; return &S.tags[r.tag].attrs[r.a]; };

  if (op == "vq") { const xmlscan::Attr* a = attr(st.arg(0)); if (!a) return false; char nq = a->quote == '"' ? '\'' : '"'; if (d.find(nq, a->vb) < a->ve) return false; d[a->vb - 1] = nq; d[a->ve] = nq; return true; }
  if (op == "vs") { const xmlscan::Attr* a = attr(st.arg(0)); if (!a) return false; static const char* W[] = {" ", "\n", "\t", "  "}; d.insert(a->vb - 1, W[st.arg(1) % 4]); d.insert(a->ne, W[st.arg(2) % 4]); return true; }
  if (op == "vr") {
    std::vector<int> multi; for (size_t t = 0; t < S.tags.size(); t++) if (S.tags[t].attrs.size() >= 2) multi.push_back((int)t);
    if (multi.empty()) return false; const xmlscan::Tag& T = S.tags[multi[(size_t)st.arg(0) % multi.size()]];
    // rotate the attribute list: the text from the first attribute name to the last closing quote is rebuilt
    size_t b = T.attrs.front().nb, e = T.attrs.back().ve + 1; std::vector<std::string> parts;
    for (auto& a : T.attrs) parts.push_back(d.substr(a.nb, a.ve + 1 - a.nb));
    std::rotate(parts.begin(), parts.begin() + 1 + (size_t)st.arg(1) % (parts.size() - 1), parts.end());
    std::string j; for (size_t i = 0; i < parts.size(); i++) { if (i) j += " "; j += parts[i]; }
    d.replace(b, e - b, j); return true;
  }
  if (op == "vf") {
    std::vector<const xmlscan::Attr*> fl;
    for (auto& r : attrs) { const xmlscan::Attr& a = S.tags[r.tag].attrs[r.a]; if (float_attr(d.substr(a.nb, a.ne - a.nb)) && looks_float(d.substr(a.vb, a.ve - a.vb))) fl.push_back(&a); }
    if (fl.empty()) return false; const xmlscan::Attr* a = fl[(size_t)st.arg(0) % fl.size()]; std::string v = d.substr(a->vb, a->ve - a->vb);
    bool has_e = v.find('e') != std::string::npos || v.find('E') != std::string::npos, has_dot = v.find('.') != std::string::npos;
    switch (st.arg(1) % 5) {
      case 0: if (has_e || !has_dot) return false; v += "0"; break;                 // 1.5 -> 1.50
      case 1: if (has_e) return false; v += "e0"; break;                             // 1.5 -> 1.5e0
      case 2: if (has_e) return false; v += "E+00"; break;
      case 3: if (v[0] == '+' || v[0] == '-') return false; v = "+" + v; break;      // 1.5 -> +1.5
      case 4: if (has_e || has_dot) return false; v += "."; break;                   // 12 -> 12.
    }
    d.replace(a->vb, a->ve - a->vb, v); return true;
  }
  if (op == "vc") { if (S.tags.empty()) return false; const xmlscan::Tag& T = S.tags[(size_t)st.arg(0) % S.tags.size()]; if (T.name == "gama-local" && T.end) return false; d.insert(T.e, "<!-- c " + std::to_string(st.arg(1)) + " -->"); return true; }
  if (op == "vu") {
    // non-ASCII text in the <description> (any UTF-8 text is valid there): characters from every corner of the 8-bit
    // code pages the output encodings know and do not know - Latin-1 punctuation below U+00A4, Latin-2 letters,
    // Cyrillic, a three-byte and a four-byte character
    static const char* U[] = {"\xc2\xa3", "\xc2\xa0", "\xc2\x81", "\xc2\xa1", "\xc5\xbd", "\xc4\x8d", "\xd0\x96", "\xe2\x82\xac", "\xf0\x9f\x93\x90", "\xc3\xa9\xc2\xa2"};
    for (size_t t = 0; t < S.tags.size(); t++) if (S.tags[t].start && !S.tags[t].empty && S.tags[t].name == "description") {
      d.insert(S.tags[t].e, std::string(" ") + U[st.arg(0) % 10] + " " + U[st.arg(1) % 10] + " "); return true;
    }
    return false;
  }
  if (op == "vl") {
    // a LONG LINE: 20-60 kB of blanks inside a start tag (between the last attribute and '>') and every line break
    // outside <description> turned into a blank, so that most of the document is one line of tens of kilobytes with
    // real content at every offset of it.  White space inside a tag and between elements is not data.
    std::vector<int> cand; for (size_t t = 0; t < S.tags.size(); t++) if (S.tags[t].start && !S.tags[t].attrs.empty() && S.tags[t].name != "description") cand.push_back((int)t);
    if (cand.empty()) return false;
    size_t db = std::string::npos, de = 0; for (size_t t = 0; t < S.tags.size(); t++) if (S.tags[t].start && S.tags[t].name == "description" && S.tags[t].match >= 0) { db = S.tags[t].b; de = S.tags[S.tags[t].match].e; }
    const xmlscan::Tag& T = S.tags[cand[(size_t)st.arg(0) % cand.size()]];
    size_t at = T.e - (T.empty ? 2 : 1); size_t pad = 20000 + (size_t)st.arg(1) % 40000;
    std::string out; out.reserve(d.size() + pad);
    for (size_t i = 0; i < d.size(); i++) {
      if (i == at) out.append(pad, ' ');
      char c = d[i]; bool in_desc = db != std::string::npos && i >= db && i < de;
      bool in_decl = i < 64 && d.compare(0, 5, "<?xml") == 0 && i <= d.find("?>");      // the XML declaration keeps its own line
      out += ((c == '\n' || c == '\r') && !in_desc && !in_decl) ? ' ' : c;
    }
    d.swap(out); return true;
  }
  if (op == "vw") { if (S.tags.empty()) return false; const xmlscan::Tag& T = S.tags[(size_t)st.arg(0) % S.tags.size()]; if (T.name == "description" && T.start) return false; static const char* W[] = {"\n", " ", "\n\n", "\t", "\r\n"}; d.insert(T.e, W[st.arg(1) % 5]); return true; }

  validity_preserving = false;
  if (op == "me" || op == "md" || op == "mm") {
    if (elems.empty()) return false; size_t b, e; S.element_range(elems[(size_t)st.arg(0) % elems.size()], b, e); std::string el = d.substr(b, e - b);
    if (op == "me") { d.erase(b, e - b); return true; }
    if (op == "md") { d.insert(e, el); return true; }
    size_t b2, e2; S.element_range(elems[(size_t)st.arg(1) % elems.size()], b2, e2);
    if (e2 > b && e2 < e) return false;            // target inside the moved element
    if (e2 >= e) { d.insert(e2, el); d.erase(b, e - b); } else { d.erase(b, e - b); d.insert(e2, el); }
    return true;
  }
  if (op == "ma") { const xmlscan::Attr* a = attr(st.arg(0)); if (!a) return false; d.erase(a->nb, a->ve + 1 - a->nb); return true; }
  if (op == "mz") {
    // the text of a leaf element that holds a number (<dim>, <band>, <ind>, <count-xy>, <flt>, <x> ... in result and
    // g3 documents, where numbers are element content, not attributes) is replaced by a hostile literal
    std::vector<int> leaves;
    for (size_t t = 0; t + 1 < S.tags.size(); t++) if (S.tags[t].start && !S.tags[t].empty && S.tags[t].match == (int)t + 1) {
      std::string txt = d.substr(S.tags[t].e, S.tags[t + 1].b - S.tags[t].e); bool digit = false, ok = !txt.empty();
      for (char c : txt) { if (isdigit((unsigned char)c)) digit = true; else if (!(c == ' ' || c == '.' || c == '-' || c == '+' || c == 'e' || c == 'E' || c == '\n')) ok = false; }
      if (ok && digit) leaves.push_back((int)t);
    }
    if (leaves.empty()) return false;
    // half of the time one of the STRUCTURAL numbers: sizes, band widths, indexes and counts that dimension storage
    if (st.arg(0) % 2) {
      std::vector<int> st_leaves;
      for (int t : leaves) { const std::string& n = S.tags[t].name; if (n == "dim" || n == "band" || n == "ind" || n == "rows" || n == "cols" || n == "nonz" || n == "blocks" || n == "width" || n == "defect" || n == "int" || n.compare(0, 6, "count-") == 0) st_leaves.push_back(t); }
      if (!st_leaves.empty()) leaves = st_leaves;
    }
    int t = leaves[(size_t)(st.arg(0) / 2) % leaves.size()];
    // integers first (dimensions, band widths, indexes, counts), then the general hostile list
    static const char* HI[] = {"0", "-1", "1", "2", "3", "5", "12", "99", "1000", "2147483647", "-2147483648", "4294967296", "x", ""};
    std::string v = st.arg(1) % 3 ? HI[(st.arg(1) / 3) % 14] : HOSTILE[(st.arg(1) / 3) % NHOSTILE];
    d.replace(S.tags[t].e, S.tags[t + 1].b - S.tags[t].e, v); return true;
  }
  if (op == "mx") {
    // a point loses its given coordinates (all, the height only, or the position only): the approximate-coordinates
    // stage has to compute them from the observations - or to find that it cannot
    std::vector<int> pts; for (size_t t = 0; t < S.tags.size(); t++) if (S.tags[t].start && S.tags[t].name == "point") { bool adj = false, xyz = false; for (auto& a : S.tags[t].attrs) { std::string n = d.substr(a.nb, a.ne - a.nb); if (n == "adj") adj = true; if (n == "x" || n == "z") xyz = true; } if (adj && xyz) pts.push_back((int)t); }
    if (pts.empty()) return false;
    const xmlscan::Tag& T = S.tags[pts[(size_t)st.arg(0) % pts.size()]]; long long what = st.arg(1) % 3; bool any = false;
    for (size_t i = T.attrs.size(); i-- > 0;) {       // from the back, offsets stay valid
      const xmlscan::Attr& a = T.attrs[i]; std::string n = d.substr(a.nb, a.ne - a.nb);
      bool drop = (n == "z" && what != 2) || ((n == "x" || n == "y") && what != 1);
      if (drop) { d.erase(a.nb, a.ve + 1 - a.nb); any = true; }
    }
    return any;
  }
  if (op == "mn") { const xmlscan::Attr* a = attr(st.arg(0)); if (!a) return false; d.insert(a->ne, "x"); return true; }
  if (op == "mv") { const xmlscan::Attr* a = attr(st.arg(0)); if (!a) return false; std::string lit = st.s.empty() ? HOSTILE[st.arg(1) % NHOSTILE] : st.s; d.replace(a->vb, a->ve - a->vb, lit); return true; }
  if (op == "mc") {
    // the text of a <cov-mat> (or any element with character data): one number more, one less, or a changed separator
    std::vector<int> cm; for (size_t t = 0; t < S.tags.size(); t++) if (S.tags[t].start && !S.tags[t].empty && S.tags[t].match >= 0 && (S.tags[t].name == "cov-mat" || S.tags[t].name == "flt" || S.tags[t].name == "dim" || S.tags[t].name == "band")) cm.push_back((int)t);
    if (cm.empty()) return false;
    const xmlscan::Tag& T = S.tags[cm[(size_t)st.arg(0) % cm.size()]]; size_t b = T.e, e = S.tags[T.match].b;
    std::string text = d.substr(b, e - b);
    switch (st.arg(1) % 4) {
      case 0: text += " 1.5 "; break;                                                            // one number too many
      case 1: { size_t q = text.find_last_of("0123456789"); if (q == std::string::npos) return false; size_t p2 = text.find_last_of(" \n\t", q); text.erase(p2 == std::string::npos ? 0 : p2, q - (p2 == std::string::npos ? 0 : p2) + 1); break; }   // one too few
      case 2: text += " 1 2 3 4 5 6 7 8 9 10 11 12 13 14 15 16 17 18 19 20 "; break;              // far too many
      case 3: { size_t q = text.find_first_of("0123456789"); if (q == std::string::npos) return false; text.insert(q + 1, " "); break; }        // a number cut in two
    }
    d.replace(b, e - b, text); return true;
  }
  if (op == "mk") {
    // a <cov-mat> whose band is not smaller than its dimension, with exactly as many elements as the storage formula
    // dim*(band+1) - band*(band+1)/2 asks for (so that only the band check can refuse it)
    std::vector<int> cm; for (size_t t = 0; t < S.tags.size(); t++) if (S.tags[t].start && !S.tags[t].empty && S.tags[t].match >= 0 && S.tags[t].name == "cov-mat") cm.push_back((int)t);
    if (cm.empty()) return false;
    const xmlscan::Tag& T = S.tags[cm[(size_t)st.arg(0) % cm.size()]];
    int dim = 0; for (auto& a : T.attrs) if (d.substr(a.nb, a.ne - a.nb) == "dim") dim = atoi(d.substr(a.vb, a.ve - a.vb).c_str());
    if (dim < 1 || dim > 60) return false;
    int band = dim + (int)(st.arg(1) % 3); long n = (long)dim * (band + 1) - (long)band * (band + 1) / 2;
    if (n < 1) { band = dim; n = (long)dim * (band + 1) - (long)band * (band + 1) / 2; }
    if (n < 1) return false;
    std::string el; for (long i = 0; i < n; i++) el += " 4";
    size_t b = T.b, e = S.tags[T.match].e;
    d.replace(b, e - b, fmt("<cov-mat dim=\"%d\" band=\"%d\">", dim, band) + el + " </cov-mat>");
    return true;
  }
  if (op == "mt") { if (elems.empty()) return false; int t = elems[(size_t)st.arg(0) % elems.size()]; const xmlscan::Tag& T = S.tags[t];
                    static const char* NN[] = {"obs", "point", "cov-mat", "coordinates", "vectors", "vec", "height-differences", "dh", "direction", "bogus", "points-observations", "network", "parameters", "description", "z-angle", "s-distance", "distance", "angle", "azimuth"};
                    std::string nn = NN[st.arg(1) % 19];
                    if (!T.empty && T.match >= 0) { const xmlscan::Tag& E = S.tags[T.match]; d.replace(E.b + 2, E.name.size(), nn); }
                    d.replace(T.b + 1, T.name.size(), nn); return true; }
  return false;
}

bool is_transport(const std::string& op) { return op == "cut" || op == "empty" || op == "finalsep"; }

struct GkfOutcome { std::string kind; long line = -1; int code = 0; std::string dump; std::string what; };
GkfOutcome run_gkf(const std::string& B, const std::vector<size_t>& cuts, bool finalsep, bool empties);

// ------------------------------------------------------- gama-local verdict ---
struct LocalVerdict { int exit_code = 0; std::string category; long line = -1; bool refused = false; std::string out_hash_key; };

std::string find_between(const std::string& s, const std::string& a, const std::string& b)
{
  size_t p = s.find(a); if (p == std::string::npos) return ""; p += a.size(); size_t q = s.find(b, p); if (q == std::string::npos) return ""; return s.substr(p, q - p);
}

LocalVerdict judge_local(const procemu::Result& R, int xml_file_index)
{
  LocalVerdict v; v.exit_code = R.exit_code;
  const std::string& xml = xml_file_index >= 0 && (size_t)xml_file_index < R.files.size() ? R.files[xml_file_index] : R.out;
  std::string cat = find_between(xml, "<error category=\"", "\"");
  // (an error document that could not be stored in its file goes to the standard error stream)
  const std::string& where = !cat.empty() ? xml : R.err;
  if (cat.empty()) cat = find_between(R.err, "<error category=\"", "\"");
  if (!cat.empty()) {
    v.category = cat; v.refused = true;
    std::string ln = find_between(where, "<lineNumber>", "</lineNumber>"); if (!ln.empty()) v.line = atol(ln.c_str());
  } else if (R.exit_code == 3 || R.exit_code == 2) {
    v.refused = true; v.category = R.exit_code == 3 ? "stderr:parser" : "stderr:exception";
    // "On line number N : what"
    size_t p = R.err.find(" : ");
    while (p != std::string::npos) { size_t q = p; while (q > 0 && isdigit((unsigned char)R.err[q - 1])) q--; if (q < p) { v.line = atol(R.err.substr(q, p - q).c_str()); break; } p = R.err.find(" : ", p + 1); }
  }
  return v;
}

long count_lines(const std::string& s, size_t upto) { long n = 1; for (size_t i = 0; i < upto && i < s.size(); i++) if (s[i] == '\n' || (s[i] == '\r' && (i + 1 >= s.size() || s[i + 1] != '\n'))) n++; return n; }     // as expat counts

// --------------------------------------------------------------- engine -----
class IoEngine : public Engine {
public:
  const char* name() const override { return "sim_io"; }
  const char* property() const override { return "C11"; }
  void init(const std::string& tier) override { setup_sweep(tier); }
  uint64_t enumerated_count(const std::string& tier) override { setup_sweep(tier); return g_scale_first + (uint64_t)ioev::n_scale_docs(); }
  long recycle_after() override { return 1500; }     // several error paths of gama-local leak the network object by design
  Plan generate(uint64_t seed, uint64_t index, const std::string& tier) override;
  Verdict execute(const Plan& plan, EventLog& log, Stats& st) override;
  std::vector<Plan> simplify(const Plan& p) override;
private:
  Verdict exec_local(const Plan& plan, const std::string& B, const std::vector<size_t>& cuts, bool err_end, bool valid_claim, EventLog& log, Stats& st);
  Verdict exec_gkf(const Plan& plan, const std::string& B, const std::vector<size_t>& cuts, bool finalsep, bool valid_claim, EventLog& log, Stats& st);
};

std::vector<std::string> split_args(const std::string& s)
{
  std::vector<std::string> v; std::string cur; bool any = false;
  for (char c : s) { if (c == ' ') { if (any) v.push_back(cur); cur.clear(); any = false; } else { cur += c; any = true; } }
  if (any) v.push_back(cur);
  for (auto& a : v) if (a == "@EMPTY") a = "";
  return v;
}

std::vector<size_t> lens_from_cuts(std::vector<size_t> cuts, size_t n)
{
  std::sort(cuts.begin(), cuts.end()); cuts.erase(std::unique(cuts.begin(), cuts.end()), cuts.end());
  std::vector<size_t> lens; size_t pos = 0;
  for (size_t c : cuts) { if (c <= pos || c >= n) continue; lens.push_back(c - pos); pos = c; }
  return lens;     // the rest is delivered as the last chunk
}

Verdict IoEngine::exec_local(const Plan& plan, const std::string& B, const std::vector<size_t>& cuts, bool err_end, bool valid_claim, EventLog& log, Stats& st)
{
  std::vector<std::string> args = split_args(plan.get("args", "- --xml -"));
  int xml_index = (int)plan.geti("xmlfile", -1);
  bool via_stdin = !args.empty() && args[0] == "-";      // generated vectors put the input first ...
  if (!args.empty() && args[0].compare(0, 2, "--") == 0) for (size_t i = 0; i + 1 < args.size(); i++) if (args[i] == "--input-xml" && args[i + 1] == "-") via_stdin = true;   // ... or name it through --input-xml
  std::vector<size_t> lens = lens_from_cuts(cuts, B.size());
  for (auto& a : args) { if (a == "@X") st.add("fault.output_cannot_be_opened"); else if (a == "@FULL") st.add("fault.output_disk_full"); }
  procemu::Result A = procemu::run_gama_local(args, B, lens, err_end);
  st.add("processes"); st.add("bytes_delivered", (long long)A.delivered); st.add("chunks", (long long)lens.size() + 1);
  if (A.escaped) return Verdict::fail("C11:escaped-exception:local", 0, A.escaped_what);
  LocalVerdict va = judge_local(A, xml_index);
  log.line("local exit=%d cat=%s line=%ld out=%016llx err=%016llx files=%zu delivered=%zu ended=%d again=%ld", A.exit_code, va.category.c_str(), va.line,
           (unsigned long long)fnv(A.out), (unsigned long long)fnv(A.err), A.files.size(), A.delivered, (int)A.stream_ended, A.reads_after_end);
  for (auto& f : A.files) log.line("  file %zu bytes %016llx", f.size(), (unsigned long long)fnv(f));
  st.state("verdicts", fmt("local/%d/%s", A.exit_code, va.category.c_str()));
  // clause 1: bounded liveness in logical time - a dead stream is not asked again and again
  if (via_stdin && A.reads_after_end > 3) return Verdict::fail("C11:spin-on-dead-stream:local", 0, fmt("%ld further reads after end of stream", A.reads_after_end));
  // clause 3: a refusal of the input names a line of it
  bool parse_stage = va.category == "gamaLocalParserError" || va.category == "stderr:parser" || (va.refused && via_stdin && !A.stream_ended);
  if (va.refused && parse_stage) {
    long lines = count_lines(B, via_stdin ? A.delivered : B.size());
    if (va.line < 0) return Verdict::fail(fmt("C11:refusal-without-line:local:%s", va.category.c_str()), 0, fmt("input refused (%s, exit %d) without naming a line", va.category.c_str(), A.exit_code));
    if (va.line < 1 || va.line > lines + 1) return Verdict::fail("C11:line-out-of-range:local", 0, fmt("diagnostic names line %ld, %ld lines were delivered", va.line, lines));
    st.add("refusals_located");
  }
  // clause 3, the other way round: an input the parser refuses is REPORTED as refused, whatever happens to the outputs
  // (a result file that cannot be opened, a full disk).  Independent verdict: GKFparser on the same bytes.
  if (via_stdin && !va.refused && !err_end && A.delivered > 0) {
    GkfOutcome g = run_gkf(B, {}, false, false);
    st.add("parses");
    if (g.kind == "parser")
      return Verdict::fail("C11:refusal-not-reported:local", 0, fmt("GKFparser refuses these bytes (line %ld: %s); gama-local ended with status %d and no diagnostic on any stream or file", g.line, g.what.c_str(), A.exit_code));
  }
  // clause 6: the verdict does not depend on how the bytes were cut; reference = the same bytes in one piece, clean end
  if (via_stdin && (!lens.empty() || err_end)) {
    procemu::Result R = procemu::run_gama_local(args, B, {}, false);
    st.add("processes");
    LocalVerdict vr = judge_local(R, xml_index);
    if (vr.refused != va.refused || vr.category != va.category || (!va.refused && R.exit_code != A.exit_code))
      return Verdict::fail("C11:verdict-depends-on-chunking:local", 0, fmt("chunked: exit %d category '%s'; one piece: exit %d category '%s'", A.exit_code, va.category.c_str(), R.exit_code, vr.category.c_str()));
    if (!va.refused && (R.out != A.out || R.files != A.files))
      return Verdict::fail("C11:content-depends-on-chunking:local", 0, "same bytes, other chunk plan, different output");
  }
  // clause 4: documents that follow the grammar are accepted
  if (valid_claim && va.refused)
    return Verdict::fail("C11:valid-document-refused:local", 0, fmt("a valid document (corpus document with validity-preserving edits only) was refused: %s line %ld", va.category.c_str(), va.line));
  // class (iv): writer and reader as a pipeline.  What this very run wrote with --xml (or --html) goes to the result
  // reader, whole, cut short at a byte or delivered in two pieces.  Held to clauses 1-3 only; whether the reader takes
  // the writer's own complete document is counted, not judged (a writer fault is not C11's subject).
  long long pipe = plan.geti("pipe", 0);
  if (pipe > 0) {
    const std::string* doc = nullptr; bool html = false;
    // which stream holds an adjustment-result document, and nothing else
    int to_stdout = 0; std::string xml_to, html_to;
    for (size_t i = 1; i < args.size(); i++) {
      if (args[i].compare(0, 2, "--") != 0) continue;
      if (i + 1 < args.size() && args[i + 1] == "-") to_stdout++;
      if (args[i] == "--verbose") to_stdout++;           // progress messages share the standard output
      if (i + 1 < args.size()) { if (args[i] == "--xml") xml_to = args[i + 1]; else if (args[i] == "--html") html_to = args[i + 1]; }
    }
    if (xml_index >= 0 && (size_t)xml_index < A.files.size() && !A.files[xml_index].empty()) doc = &A.files[xml_index];
    else if (xml_to == "-" && to_stdout == 1 && A.out.compare(0, 5, "<?xml") == 0) doc = &A.out;
    else if (html_to == "-" && to_stdout == 1 && A.out.compare(0, 5, "<?xml") == 0 && A.out.find("<html") != std::string::npos) { doc = &A.out; html = true; }
    if (doc && doc->size() < 200000) {
      std::string W = *doc; long long mode = pipe % 3, at = (pipe / 3) % (long long)(W.size() + 1);
      std::vector<size_t> plens; bool perr = false;
      if (mode == 1) W.resize((size_t)at);
      else if (mode == 2 && at > 0 && (size_t)at < W.size()) { plens.push_back((size_t)at); perr = (pipe / 7) % 4 == 0; }
      iotargets::Outcome o = iotargets::run_adjres(W, plens, perr, html);
      st.add("pipeline_reads"); st.add(fmt("pipeline_reads.mode%lld", mode));
      log.line("pipe %s mode=%lld at=%lld -> %s line=%ld again=%ld", html ? "html" : "xml", mode, at, o.kind.c_str(), o.line, o.reads_after_end);
      st.state("verdicts", fmt("pipe/%s/%lld/%s", html ? "html" : "xml", mode, o.kind.c_str()));
      if (o.reads_after_end > 3) return Verdict::fail("C11:spin-on-dead-stream:pipeline", 0, fmt("%ld further reads after end of stream", o.reads_after_end));
      if (o.kind == "parser") {
        long nl = 1; for (char c : W) if (c == '\n') nl++;
        if (o.line < 1 || o.line > nl + 1) return Verdict::fail(fmt("C11:%s:pipeline", o.line < 1 ? "refusal-without-line" : "line-out-of-range"), 0, fmt("result reader names line %ld (%ld lines written by this run): %s", o.line, nl, o.what.c_str()));
        if (mode == 0 && !va.refused && A.exit_code == 0) {
          st.add("pipeline_own_output_refused");
          // The XML result document of a successful run is the reference instance of the documented result format:
          // read_xml refusing it is clause 4 (a document that follows the grammar is refused).  For HTML this is only
          // counted: read_html reads English reports only, and gama-local writes them in eleven languages.
          if (!html || getenv("VERIF_PIPE_GATING")) return Verdict::fail("C11:pipeline:own-output-refused:" + iotargets::slug(o.what), 0, fmt("line %ld: %s", o.line, o.what.c_str()));
        }
      } else if (o.kind != "ok" && o.kind != "resource")
        return Verdict::fail(fmt("C11:refusal-without-line:pipeline:%s", o.kind.c_str()), 0, o.what);
      else if (mode == 0) st.add("pipeline_own_output_accepted");
    }
  }
  return Verdict();
}

GkfOutcome run_gkf(const std::string& B, const std::vector<size_t>& cuts, bool finalsep, bool empties)
{
  GkfOutcome o; o.kind = "ok";
  GNU_gama::local::LocalNetwork net;
  try {
    GNU_gama::local::GKFparser gkf(net);
    size_t pos = 0;
    std::vector<size_t> cs = cuts; std::sort(cs.begin(), cs.end());
    for (size_t c : cs) { if (c < pos || c > B.size()) continue; if (c == pos && !empties) continue; gkf.xml_parse(B.data() + pos, (int)(c - pos), 0); pos = c; }
    if (finalsep) { gkf.xml_parse(B.data() + pos, (int)(B.size() - pos), 0); gkf.xml_parse("", 0, 1); }
    else gkf.xml_parse(B.data() + pos, (int)(B.size() - pos), 1);
    o.dump = gnet::dump_network(net, true);
  }
  catch (const GNU_gama::local::ParserException& e) { o.kind = "parser"; o.line = e.line; o.code = e.error_code; o.what = e.what(); }
  catch (const GNU_gama::local::Exception& e) { o.kind = "local-exception"; o.what = e.what(); }
  catch (const GNU_gama::Exception::matvec& e) { o.kind = "matvec-exception"; o.what = e.what(); }
  catch (const std::bad_alloc&) { o.kind = "resource"; }
  catch (const std::length_error&) { o.kind = "resource"; }
  return o;
}

Verdict IoEngine::exec_gkf(const Plan&, const std::string& B, const std::vector<size_t>& cuts, bool finalsep, bool valid_claim, EventLog& log, Stats& st)
{
  GkfOutcome a = run_gkf(B, cuts, finalsep, true);
  st.add("parses"); st.add("bytes_delivered", (long long)B.size()); st.add("chunks", (long long)cuts.size() + 1);
  log.line("gkf %s line=%ld code=%d dump=%016llx", a.kind.c_str(), a.line, a.code, (unsigned long long)fnv(a.dump));
  st.state("verdicts", fmt("gkf/%s/%d", a.kind.c_str(), a.code));
  if (a.kind == "resource") return Verdict();
  if (a.kind == "parser") {
    long lines = count_lines(B, B.size());
    if (a.line < 1 || a.line > lines + 1) return Verdict::fail(a.line < 1 ? "C11:refusal-without-line:gkf:parser" : "C11:line-out-of-range:gkf", 0, fmt("ParserException names line %ld (%ld lines in the document): %s", a.line, lines, a.what.c_str()));
    st.add("refusals_located");
  } else if (a.kind != "ok")
    return Verdict::fail(fmt("C11:refusal-without-line:gkf:%s", a.kind.c_str()), 0, fmt("xml_parse raised %s (%s): the refusal carries no line", a.kind.c_str(), a.what.c_str()));
  if (!cuts.empty() || finalsep) {
    GkfOutcome r = run_gkf(B, {}, false, false);
    st.add("parses");
    if (r.kind != a.kind) return Verdict::fail("C11:verdict-depends-on-chunking:gkf:" + iotargets::slug(a.kind == "parser" ? a.what : r.what), 0,
                                               fmt("chunked: %s (line %ld: %s); one piece: %s (line %ld: %s)", a.kind.c_str(), a.line, a.what.c_str(), r.kind.c_str(), r.line, r.what.c_str()));
    if (a.kind == "ok" && r.dump != a.dump) return Verdict::fail("C11:content-depends-on-chunking:gkf", 0, "same bytes, other chunk plan, different parsed network");
  }
  if (valid_claim && a.kind != "ok")
    return Verdict::fail("C11:valid-document-refused:gkf:" + iotargets::slug(a.what), 0, fmt("a valid document was refused at line %ld: %s", a.line, a.what.c_str()));
  return Verdict();
}

Verdict IoEngine::execute(const Plan& plan, EventLog& log, Stats& st)
{
  load_all();
  // process-wide state a previous run of this worker may have left behind (an emulated gama-local --language cz)
  GNU_gama::local::set_gama_language(GNU_gama::local::en);
  GNU_gama::local::Observation::gons = true;
  std::string target = plan.get("target", "local");
  std::string B = from_hex(plan.get("doc", ""));
  if (plan.get("doc").empty() && !plan.get("corpus").empty()) {     // documents may be named instead of carried
    std::string kind = plan.get("corpus"); size_t k = (size_t)plan.geti("docidx", 0);
    const std::vector<gnet::Doc>& v = kind == "adj" ? g_adj : kind == "g3" ? g_g3 : g_gkf;
    if (!v.empty()) B = v[k % v.size()].bytes;
  }
  bool valid = plan.geti("validbase", 0) != 0, err_end = false, finalsep = false;
  std::vector<size_t> cuts;
  int fired = 0;
  std::string ev_shape;
  if (!plan.get("scale").empty()) { B = ioev::build_scale(plan.geti("scale", 0)); fired++; valid = false; st.add("documents_of_extreme_size"); st.add("extreme_size_bytes", (long long)B.size()); }
  if (plan.get("synth") == "gkf") {             // grammar-derived gama-local network, built from the plan's steps
    int ns = 0; B = ioev::build_gkf(plan, &ns, &ev_shape); fired += ns; valid = false;
    st.add("synthetic_gkf_networks"); st.add("synthetic_gkf_steps", ns);
  }
  if (plan.get("synth") == "tidy") {            // a network that is valid by construction (io_events.h tidy_network), clusters in varying order
    sim::Rng tg((uint64_t)plan.geti("tseed", 1)); B = ioev::tidy_network(tg); fired++; valid = true;
    st.add("synthetic_valid_networks");
  }
  if (plan.get("synth") == "g3") {              // grammar-derived g3 model, built from the plan's steps
    int ns = 0; B = ioev::build_g3(plan, &ns, &ev_shape); fired += ns; valid = false;
    st.add("synthetic_g3_models"); st.add("synthetic_g3_steps", ns);
  }
  if (!plan.get("alphabet").empty()) {          // class (iii): the document is built from the plan's events
    int ne = 0; B = ioev::build(plan, &ne, &ev_shape); fired += ne; valid = false;
    st.add("event_documents"); st.add("events", ne); st.state("event_contexts", plan.get("alphabet") + "/" + plan.get("ctx"));
  }
  for (const Step& s : plan.steps) {
    if (is_transport(s.op) || s.op == "ev" || s.op == "gs" || s.op == "gp" || s.op == "go" || s.op == "kp" || s.op == "ko" || s.op == "kh" || s.op == "kv") continue;
    bool vp = true;
    bool applied = apply_edit(B, s, vp);
    if (applied) { fired++; st.add("fault." + s.op); if (!vp) valid = false; if (s.op == "err") err_end = true; }
    else st.add("fault_not_applicable." + s.op);
    if (B.size() > 120000) B.resize(120000);
  }
  for (const Step& s : plan.steps) {
    if (s.op == "cut") { if (!B.empty()) { cuts.push_back((size_t)s.arg(0) % (B.size() + 1)); st.add("fault.cut"); fired++; } }
    else if (s.op == "empty") { if (!B.empty()) { size_t c = (size_t)s.arg(0) % (B.size() + 1); cuts.push_back(c); cuts.push_back(c); st.add("fault.empty_chunk"); fired++; } }
    else if (s.op == "finalsep") { finalsep = true; st.add("fault.final_flag_separate"); fired++; }
  }
  // Re-spelling that is not data (quote style, white space, attribute order, comments, a long line) must not change what
  // gama-local computes: the run is compared with the run on the document as it was before those edits.
  bool respelled_only = valid && target == "local" && fired > 0 && plan.geti("same_as_base", 0) != 0;
  if (respelled_only) for (const Step& s : plan.steps) if (!is_transport(s.op) && s.op != "vq" && s.op != "vs" && s.op != "vr" && s.op != "vw" && s.op != "vc" && s.op != "vl") respelled_only = false;
  if (respelled_only) {
    std::string B0 = from_hex(plan.get("doc", "")); std::vector<std::string> a0 = split_args(plan.get("args", "- --xml -"));
    bool plain = true; for (auto& a : a0) if (a == "@X" || a == "@FULL" || a == "--verbose") plain = false;
    if (!B0.empty() && plain) {
      procemu::Result R1 = procemu::run_gama_local(a0, B, {}, false), R0 = procemu::run_gama_local(a0, B0, {}, false);
      st.add("processes", 2); st.add("respelling_compared");
      // the description is echoed in the results: it is compared apart from white space
      auto squeeze = [](const std::string& t) { std::string o; bool sp = false; for (char c : t) { if (c == ' ' || c == '\n' || c == '\t' || c == '\r') { sp = true; continue; } if (sp && !o.empty()) o += ' '; sp = false; o += c; } return o; };
      bool same = R0.exit_code == R1.exit_code && squeeze(R0.out) == squeeze(R1.out) && R0.files.size() == R1.files.size();
      for (size_t i = 0; same && i < R0.files.size(); i++) same = squeeze(R0.files[i]) == squeeze(R1.files[i]);
      if (!same) return Verdict::fail("C11:respelling-changes-result:local", 0, fmt("the same document with other white space / quotes / attribute order gives another result (exit %d vs %d, stdout %zu vs %zu bytes)", R0.exit_code, R1.exit_code, R0.out.size(), R1.out.size()));
    }
  }
  st.nontrivial = fired > 0;
  // where did the faults land?  (element, lexical context, fault kind)
  std::string sites;
  if (fired) {
    std::string D0 = from_hex(plan.get("doc", "")); if (D0.empty()) D0 = B;
    xmlscan::Scan S = xmlscan::scan(D0);
    for (const Step& s : plan.steps) {
      if (s.a.empty() || D0.empty()) continue;
      if (s.op == "cut" || s.op == "trunc" || s.op == "err" || s.op == "flip" || s.op == "setb" || s.op == "ins" || s.op == "delb" || s.op == "lost" || s.op == "dupc" || s.op == "swapc" || s.op == "empty") {
        size_t p = (size_t)s.arg(0) % D0.size(); int el = S.elem_of[p];
        std::string site = fmt("%s/%s/%s", el >= 0 ? S.tags[el].name.c_str() : "(top)", xmlscan::ctx_name(S.ctx[p]), s.op.c_str());
        st.state("fault_sites", site); sites += site + ";";
      }
    }
  }
  if (const char* dp = getenv("VERIF_DUMP_BYTES")) write_file(dp, B);      // debugging aid: the bytes actually delivered
  // abstract form of the run: consumer, document, and where which fault landed (element / lexical context / kind)
  st.shape = target + ":" + plan.get("name", plan.get("sweep", "")).substr(0, 40) + ":" + ev_shape + sites;
  for (const Step& s : plan.steps) if (s.a.empty() || is_transport(s.op) == false) { if (sites.find(s.op) == std::string::npos) st.shape += s.op + ","; }
  log.line("target %s bytes %zu doc %016llx cuts %zu err %d valid %d", target.c_str(), B.size(), (unsigned long long)fnv(B), cuts.size(), (int)err_end, (int)valid);
  st.add("target." + target);
  if (target == "gkf") return exec_gkf(plan, B, cuts, finalsep, valid, log, st);
  if (target == "local") return exec_local(plan, B, cuts, err_end, valid, log, st);
  return iotargets::execute(target, plan, B, cuts, err_end, finalsep, valid, log, st);
}

// ------------------------------------------------------------ generation ----
std::string gen_args(Rng& g, int& xmlfile)
{
  xmlfile = -1;
  int r = (int)g.below(10);
  if (r < 4) return "- --xml -";
  if (r < 5) return "-";
  std::string a = g.chance(7, 8) ? "-" : "@IN";
  // "every combination of command-line options": one vector in forty names no input at all (options only), one in
  // forty names it twice
  std::string input_opt;
  { int r = (int)g.below(40); if (r == 0) a = ""; else if (r == 1) a += g.chance(1, 2) ? " -" : " @IN";
    // the input named through --input-xml instead (after the other options), and the one-word invocations
    else if (r == 2) { input_opt = " --input-xml " + a; a = ""; }
    else if (r == 3) { static const char* ONE[] = {"--help", "--version", "--dumpversion", "--verbose", "-help", "--", "--input-xml"}; return ONE[g.below(7)]; } }
  int nf = 0;
  // an output file is a memfd; one in ten is a file-layer fault instead: a path that cannot be opened, or a full disk
  // (and one name in forty is the empty string: --xml '')
  auto file = [&]() -> std::string { int r = (int)g.below(40); if (r <= 1) return "@X"; if (r <= 3) return "@FULL"; if (r == 4) return "@EMPTY"; return fmt("@F%d", nf++); };
  static const char* ALGO[] = {"gso", "svd", "cholesky", "envelope", "envelope", "bogus", "@EMPTY"};
  static const char* LANG[] = {"en", "cz", "cs", "fr", "ru", "zh", "xx", "ua", "es"};
  static const char* ENC[] = {"utf-8", "iso-8859-2", "iso-8859-2-flat", "cp-1250", "cp-1251", "latin1"};
  static const char* ANG[] = {"400", "360", "100"};
  static const char* LAT[] = {"50", "49-30-00", "abc", "-33.5", "1e3", "90"};
  static const char* ELL[] = {"wgs84", "bessel", "krasovski", "xx", "grs80"};
  static const char* BAND[] = {"-1", "0", "1", "3", "x", "-2", "99"};
  static const char* ITER[] = {"0", "1", "3", "10", "x", "-1"};
  bool xml_given = false, other_out = false;
  int nopt = (int)g.range(1, 6);
  for (int i = 0; i < nopt; i++) {
    switch (g.below(16)) {
      case 0: a += std::string(" --algorithm ") + ALGO[g.below(7)]; break;
      case 1: a += std::string(" --language ") + LANG[g.below(9)]; break;
      case 2: a += std::string(" --encoding ") + ENC[g.below(6)]; break;
      case 3: a += std::string(" --angular ") + ANG[g.below(3)]; break;
      case 4: a += std::string(" --latitude ") + LAT[g.below(6)]; break;
      case 5: a += std::string(" --ellipsoid ") + ELL[g.below(5)]; break;
      case 6: a += " --text " + (g.chance(1, 3) ? std::string("-") : file()); other_out = true; break;
      case 7: a += " --html " + (g.chance(1, 3) ? std::string("-") : file()); other_out = true; break;
      case 8: if (!xml_given) { if (g.chance(1, 2)) a += " --xml -"; else { std::string f = file(); if (f[1] == 'F' && f[2] != 'U') xmlfile = nf - 1; a += " --xml " + f; } xml_given = true; } break;
      case 9: a += " --octave " + file(); break;
      case 10: a += " --svg " + (g.chance(1, 4) ? std::string("-") : file()); break;
      case 11: a += " --obs " + file(); break;
      case 12: a += std::string(" --cov-band ") + BAND[g.below(7)]; break;
      case 13: a += std::string(" --iterations ") + ITER[g.below(6)]; break;
      case 14: a += " --export " + (g.chance(1, 4) ? std::string("-") : file()); break;
      case 15: a += g.chance(1, 2) ? " --verbose" : (g.chance(1, 2) ? " --verbose yes" : " --verbose no"); break;
    }
  }
  (void)other_out;
  a += input_opt;
  if (g.chance(1, 20)) a += " --algorithm";          // option without its value at the very end
  if (g.chance(1, 30)) a += " --bogus-option 1";
  return a;
}

size_t stratified_offset(Rng& g, const xmlscan::Scan& S, size_t n)
{
  if (n == 0) return 0;
  int want = (int)g.below(xmlscan::NCTX);
  for (int tries = 0; tries < 24; tries++) { size_t p = (size_t)g.below(n); if (S.ctx[p] == want) return p; }
  return (size_t)g.below(n);
}

Plan IoEngine::generate(uint64_t seed, uint64_t index, const std::string& tier)
{
  setup_sweep(tier);
  Plan p;
  static const int FILLS[] = {FILL_00, FILL_FF, FILL_A5, FILL_PRNG};
  Rng g(seed);
  p.seti("fill", FILLS[g.below(4)]);
  if (index < g_sweep_off.back()) {
    // ---- enumerated part: a single end of stream, or a single split point, at EVERY byte of the swept documents
    size_t d = 0; while (g_sweep_off[d + 1] <= index) d++;
    size_t off = index - g_sweep_off[d]; const gnet::Doc& D = g_gkf[g_sweep[d]]; size_t L = D.bytes.size();
    bool split = off >= 2 * L; bool through_main = off < L || off >= 3 * L;
    size_t k = off < L ? off : off < 2 * L ? off - L : off < 3 * L ? off - 2 * L : (off - 3 * L) * 4;
    p.set("sweep", fmt("%s %s %zu", D.name.c_str(), split ? "split" : "eof", k));
    p.set("corpus", "gkf"); p.seti("docidx", g_sweep[d]); p.seti("validbase", split ? 1 : 0);
    p.set("target", through_main ? "local" : "gkf");
    p.set("args", "- --xml -");
    Step s; s.op = split ? "cut" : "trunc"; s.a.push_back((long long)k); p.steps.push_back(s);
    p.seti("refill", 0);
    return p;
  }
  if (index < g_space_off.back()) {
    // ---- enumerated part, class (iii): every sequence of d events in every context
    size_t k = 0; while (g_space_off[k + 1] <= index) k++;
    ioev::fill_plan(p, g_spaces[k], index - g_space_off[k]);
    p.set("name", fmt("events-%s-d%d", g_spaces[k].alphabet.c_str(), g_spaces[k].depth));
    if (p.get("target") == "local") p.set("args", "- --xml -");
    p.seti("refill", 0);
    return p;
  }
  if (index < g_scale_first + (uint64_t)ioev::n_scale_docs()) {
    // ---- enumerated part: well-formed documents of extreme size through the parser
    p.seti("scale", (long long)(index - g_scale_first)); p.set("target", "gkf"); p.set("name", fmt("scale-%d", (int)(index - g_scale_first))); p.seti("refill", 0);
    return p;
  }
  // ---- seeded part
  p.seti("refill", g.chance(1, 6) ? 1 : 0);
  if (g.chance(1, 8)) {
    // class (iii), sampled: longer sequences, attribute variants, leaves with text, raw closing tags, no closing at all
    static const char* AL[] = {"gkf", "gkf", "g3", "adj"};
    std::string a = AL[g.below(4)];
    const ioev::Alphabet& A = ioev::alphabet(a);
    p.set("alphabet", a); p.seti("ctx", (long long)g.below(ioev::contexts(a).size()));
    std::string target = a == "gkf" ? (g.chance(2, 3) ? "local" : "gkf") : a == "g3" ? (g.chance(1, 2) ? "g3" : "data") : (g.chance(4, 5) ? "adjres" : "html");
    p.set("target", target); p.set("name", "events-" + a);
    if (target == "local") { int xf = -1; p.set("args", g.chance(1, 2) ? std::string("- --xml -") : gen_args(g, xf)); p.seti("xmlfile", xf); }
    if (target == "g3") p.seti("g3alg", (long long)g.below(4));
    int ne = (int)g.range(1, 10);
    // half of the time the tags are drawn from the few that the context admits (found by name affinity: the same
    // small set is reused, so that nested structures get built), otherwise from the whole alphabet
    std::vector<int> few; int nf = (int)g.range(2, 6); for (int i = 0; i < nf; i++) few.push_back((int)g.below(A.n));
    bool narrow = g.chance(1, 2);
    for (int i = 0; i < ne; i++) {
      Step s; s.op = "ev";
      int tag = narrow ? few[g.below(few.size())] : (int)g.below(A.n);
      int kr = (int)g.below(20); int kind = kr < 9 ? 0 : kr < 14 ? 1 : kr < 19 ? 2 : 3;
      long long var = g.chance(1, 3) ? 0 : g.chance(1, 6) ? 1 : (long long)g.range(2, 100000);
      s.a = {tag, kind, var}; p.steps.push_back(s);
    }
    if (g.chance(1, 12)) p.seti("noclose", 1);
    int nc = g.chance(1, 2) ? 0 : (int)g.range(1, 4);
    for (int i = 0; i < nc; i++) { Step s; s.op = "cut"; s.a = {(long long)g.below(4000)}; p.steps.push_back(s); }
    return p;
  }
  if (g.chance(1, 25)) {
    // networks that are valid by construction (three fixed points, one or two new ones, observations of mixed kinds,
    // levelling and vector clusters in either order): clause 4 applies, whatever the chunking
    p.set("synth", "tidy"); p.set("name", "synthetic-valid-gkf"); p.set("target", "local"); p.seti("tseed", (long long)g.below(1000000));
    p.set("args", "- --xml -"); p.seti("xmlfile", -1);
    int nc = g.chance(1, 2) ? 0 : (int)g.range(1, 3);
    for (int i = 0; i < nc; i++) { Step s; s.op = "cut"; s.a = {(long long)g.below(4000)}; p.steps.push_back(s); }
    return p;
  }
  if (g.chance(1, 10)) {
    // grammar-derived gama-local networks: two or three fixed points, one to three points to be determined (with all,
    // some or none of their coordinates given, so that the approximate-coordinates stage has to work), observations
    // of every kind between them; a few of the observations refer to points that were never declared
    p.set("synth", "gkf"); p.set("name", "synthetic-gkf"); p.set("target", "local");
    if (g.chance(1, 4)) p.seti("klat", (long long)g.range(1, 2));      // latitude (and ellipsoid) given: observations are reduced to the ellipsoid
    // a third of the networks go through EVERY writer
    { int xf = -1; int w = (int)g.below(3); p.set("args", w == 0 ? std::string("- --xml -") : w == 1 ? gen_args(g, xf) : std::string("- --text @F0 --html @F1 --xml @F2 --svg @F3 --octave @F4 --export @F5")); if (w == 2) xf = 2; p.seti("xmlfile", xf); }
    auto stk = [&](const char* op, std::initializer_list<long long> a) { Step s; s.op = op; s.a = a; p.steps.push_back(s); };
    int nfix = (int)g.range(2, 3), nnew = (int)g.range(1, 3), np = nfix + nnew;
    bool tidy = g.chance(2, 3);
    for (int i = 0; i < nfix; i++) stk("kp", {i, tidy ? 0 : (long long)g.below(7), tidy ? 0 : (long long)g.below(4) + (g.chance(1, 10) ? 4 + 16 * (long long)g.below(2) : 0)});
    for (int i = nfix; i < np; i++) stk("kp", {i, tidy ? 1 : (long long)g.below(7), (g.chance(2, 3) ? 1 : (long long)g.below(4)) + (!tidy && g.chance(1, 10) ? 4 + 16 * (long long)g.below(2) : 0)});
    int ncl = (int)g.range(2, 5);
    for (int c = 0; c < ncl; c++) {
      long long from = (long long)g.below(np); int no = (int)g.range(1, 4);
      for (int i = 0; i < no; i++) {
        long long to = g.chance(1, 15) ? (long long)g.below(8) : (long long)g.below(np); if (to == from) to = (to + 1) % np;
        long long third = (long long)g.below(np); if (third == from || third == to) third = (third + 1) % np;
        stk("ko", {(long long)g.below(6), from, to, third, (long long)g.below(100000)});
      }
      if (g.chance(1, 4)) { long long a = (long long)g.below(np), b = (long long)g.below(np); if (a == b && !g.chance(1, 10)) b = (b + 1) % np; stk("kh", {a, b, (long long)g.below(1000)}); }
      if (g.chance(1, 6)) { long long a = (long long)g.below(np), b = (long long)g.below(np); if (a == b && !g.chance(1, 10)) b = (b + 1) % np; stk("kv", {a, b, (long long)g.below(1000)}); }
    }
    int nc = g.chance(3, 4) ? 0 : (int)g.range(1, 3);
    for (int i = 0; i < nc; i++) stk("cut", {(long long)g.below(4000)});
    return p;
  }
  if (g.chance(1, 12)) {
    // grammar-derived g3 models: points with every combination of status and coordinates, every observation kind,
    // between declared, coordinate-less and undeclared points
    p.set("synth", "g3"); p.set("name", "synthetic-g3");
    p.set("target", g.chance(3, 4) ? "g3" : "data"); p.seti("g3alg", (long long)g.below(4));
    auto st3 = [&](const char* op, std::initializer_list<long long> a) { Step s; s.op = op; s.a = a; p.steps.push_back(s); };
    int np = (int)g.range(2, 6), no = (int)g.range(1, 8);
    bool tidy = g.chance(1, 2);                    // half of the models are plain: coordinates for everybody, sensible statuses
    if (tidy) st3("gs", {0, 7});
    for (int i = 0; i < np; i++) {
      if (tidy && i == 1) st3("gs", {1, 7});
      else if (!tidy && g.chance(1, 3)) st3("gs", {(long long)g.below(4), (long long)g.below(8)});
      st3("gp", {tidy ? (long long)i : (long long)g.below(8), tidy ? (long long)g.range(1, 2) : (long long)g.below(3), tidy ? 0 : (long long)g.below(64)});
    }
    for (int i = 0; i < no; i++) {
      long long a = tidy && !g.chance(1, 6) ? (long long)g.below(np) : (long long)g.below(8), b = tidy && !g.chance(1, 6) ? (long long)g.below(np) : (long long)g.below(8);
      static const int KIND[] = {0, 0, 1, 2, 2, 3, 3, 3, 5, 5, 6, 7, 7, 4};     // <azimuth> (4) is refused by the g3 parser wherever it stands
      st3("go", {(long long)KIND[g.below(14)], a, b, (long long)g.below(8), (long long)g.below(100000)});
    }
    int nc = g.chance(2, 3) ? 0 : (int)g.range(1, 3);
    for (int i = 0; i < nc; i++) st3("cut", {(long long)g.below(6000)});
    return p;
  }
  int tr = (int)g.below(100);
  std::string target = tr < 40 ? "local" : tr < 70 ? "gkf" : iotargets::pick(g);
  p.set("target", target);
  const std::vector<gnet::Doc>& pool = iotargets::pool(target, g_gkf, g_adj, g_g3);
  size_t di = (size_t)g.below(pool.size());
  // small documents more often: they keep runs short, faults dense
  if (g.chance(2, 3)) { size_t dj = (size_t)g.below(pool.size()); if (pool[dj].bytes.size() < pool[di].bytes.size()) di = dj; }
  const std::string& D = pool[di].bytes;
  p.set("name", pool[di].name);
  p.set("doc", to_hex(D));
  int xmlfile = -1;
  if (target == "local") { p.set("args", gen_args(g, xmlfile)); p.seti("xmlfile", xmlfile); if (g.chance(1, 3)) p.seti("pipe", 1 + (long long)g.below(3000000)); }
  xmlscan::Scan S = xmlscan::scan(D);
  int cls = (int)g.below(10);
  auto step = [&](const char* op, std::initializer_list<long long> a) { Step s; s.op = op; s.a = a; p.steps.push_back(s); };
  if (cls < 4) {
    // class (i): a corpus document, validity-preserving edits, any chunking: must be accepted
    p.seti("validbase", iotargets::accepts_valid_claim(target) ? 1 : 0);
    int ne = (int)g.below(5);
    static const char* V[] = {"vq", "vs", "vr", "vf", "vc", "vw"};
    for (int i = 0; i < ne; i++) step(V[g.below(6)], {(long long)g.below(5000), (long long)g.below(50), (long long)g.below(50)});
    if (g.chance(1, 6)) step("vl", {(long long)g.below(5000), (long long)g.below(40000)});
    if (target == "local" && g.chance(1, 6)) {
      // non-ASCII description, printed through one of the output encodings in one of the languages
      step("vu", {(long long)g.below(10), (long long)g.below(10)});
      static const char* ENC2[] = {"utf-8", "iso-8859-2", "iso-8859-2-flat", "cp-1250", "cp-1251"};
      static const char* LANG2[] = {"en", "ca", "cz", "du", "es", "fi", "fr", "hu", "ru", "ua", "zh"};
      p.set("args", std::string("- --encoding ") + ENC2[g.below(5)] + " --language " + LANG2[g.below(11)] + (g.chance(1, 2) ? " --text -" : " --text @F0 --html @F1")); p.seti("xmlfile", -1); p.seti("pipe", 0);
    }
    if (g.chance(1, 3)) p.seti("same_as_base", 1);
  } else if (cls < 5 && (target == "local" || target == "gkf")) {
    // networks that need the approximate-coordinates stage: one to three points without (some of) their coordinates,
    // sometimes with observations removed as well, so that the stage works with little - or cannot do it
    int nx = (int)g.range(1, 3), nd = g.chance(1, 2) ? 0 : (int)g.range(1, 3);
    for (int i = 0; i < nx; i++) step("mx", {(long long)g.below(5000), (long long)g.below(3)});
    for (int i = 0; i < nd; i++) step("me", {(long long)g.below(5000), (long long)g.below(5000)});
  } else if (cls < 8) {
    // class (ii): grammar-aware invalid edits and byte-level corruption
    int ne = (int)g.range(1, 3);
    static const char* M[] = {"me", "md", "mm", "ma", "mn", "mv", "mv", "mt", "flip", "setb", "ins", "delb", "mc", "mk", "mz", "mz"};
    for (int i = 0; i < ne; i++) {
      const char* op = M[g.below(16)];
      if (op[0] == 'm') step(op, {(long long)g.below(5000), (long long)g.below(5000)});
      else step(op, {(long long)stratified_offset(g, S, D.size()), (long long)g.below(256)});
    }
  } else if (cls < 9) {
    // transport damage: lost / duplicated / swapped chunks, torn documents
    static const char* Tm[] = {"lost", "dupc", "swapc", "torn"};
    const char* op = Tm[g.below(4)];
    if (std::string(op) == "torn") step(op, {(long long)g.below(1000), (long long)stratified_offset(g, S, D.size()), (long long)g.below(100000)});
    else step(op, {(long long)stratified_offset(g, S, D.size()), (long long)g.below(200), (long long)g.below(100)});
  } else {
    p.seti("validbase", iotargets::accepts_valid_claim(target) ? 1 : 0);
  }
  // early end or error
  if (g.chance(1, 5)) step(g.chance(1, 2) ? "trunc" : "err", {(long long)stratified_offset(g, S, D.size())});
  // chunk plan
  int nc = g.chance(1, 4) ? 0 : (int)g.range(1, 6);
  if (g.chance(1, 10)) nc = (int)g.range(20, 60);
  for (int i = 0; i < nc; i++) step("cut", {(long long)stratified_offset(g, S, D.size())});
  if (g.chance(1, 8)) step("empty", {(long long)g.below(D.size() + 1)});
  if (g.chance(1, 8)) step("finalsep", {});
  return p;
}

std::vector<Plan> IoEngine::simplify(const Plan& p)
{
  std::vector<Plan> out;
  if (p.geti("refill", 0)) { Plan c = p; c.seti("refill", 0); out.push_back(c); }
  if (p.geti("pipe", 0)) { Plan c = p; c.seti("pipe", 0); out.push_back(c); }
  if (p.get("target") == "local" && p.get("args") != "- --xml -") {
    Plan c = p; c.set("args", "- --xml -"); c.seti("xmlfile", -1); out.push_back(c);
    // drop one option (and its value) at a time
    std::vector<std::string> a = split_args(p.get("args"));
    for (size_t i = 1; i < a.size(); i++) if (a[i].size() > 2 && a[i][0] == '-' && a[i][1] == '-') {
      size_t n = (i + 1 < a.size() && !(a[i + 1].size() > 2 && a[i + 1][0] == '-' && a[i + 1][1] == '-')) ? 2 : 1;
      if (a[i] == "--xml") continue;
      std::string j; for (size_t k = 0; k < a.size(); k++) if (k < i || k >= i + n) { if (!j.empty()) j += " "; j += a[k].empty() ? "@EMPTY" : a[k]; }
      Plan c2 = p; c2.set("args", j); out.push_back(c2);
    }
  }
  // smaller document: remove whole elements, then byte ranges (only when no step addresses the document by position any more)
  std::string D = from_hex(p.get("doc", ""));
  // (a plan that claims "this is a valid document" keeps its document: a reduced one would not be valid any more)
  if (!D.empty() && D.size() > 64 && !p.geti("validbase", 0)) {
    xmlscan::Scan S = xmlscan::scan(D);
    int added = 0;
    for (size_t t = 0; t < S.tags.size() && added < 40; t++) if (S.tags[t].start && S.tags[t].name != "gama-local") {
      size_t b, e; S.element_range((int)t, b, e); if (e - b < 24) continue;
      Plan c = p; std::string d2 = D; d2.erase(b, e - b); c.set("doc", to_hex(d2)); out.push_back(c); added++;
    }
    for (size_t chunk = D.size() / 2; chunk >= 16 && added < 80; chunk /= 2)
      for (size_t b = 0; b + chunk <= D.size() && added < 80; b += chunk) { Plan c = p; std::string d2 = D; d2.erase(b, chunk); c.set("doc", to_hex(d2)); out.push_back(c); added++; }
  }
  return out;
}

} // namespace

int main(int argc, char** argv)
{
  IoEngine e;
  return sim::driver_main(argc, argv, e);
}

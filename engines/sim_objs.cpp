// sim_objs — C15: the dense matrix library against a reference model, under
// seeded histories of construct / copy / assign / move / reset / resize /
// arithmetic between live objects of different sizes (DESIGN.md section 7).
//
// Real code: everything under lib/matvec.  Reference: dense std::vector<double>
// per object.  After EVERY step every live object is compared with its model.
#include "sim/sim.h"

#include <matvec/matvec.h>
#include <matvec/symmat.h>
#include <matvec/covmat.h>
#include <matvec/bandmat.h>
#include <matvec/svd.h>
#include <matvec/pinv.h>
#include <matvec/sortvec.h>
#include <matvec/gso.h>

#include <memory>
#include <sstream>
#include <cmath>
#include <iomanip>
#include <algorithm>

using namespace sim;
using GNU_gama::Exception::matvec;
typedef GNU_gama::Vec<double, int, matvec>      RVec;
typedef GNU_gama::TransVec<double, int, matvec> RTVec;
typedef GNU_gama::Mat<double, int, matvec>      RMat;
typedef GNU_gama::TransMat<double, int, matvec> RTMat;
typedef GNU_gama::SymMat<double, int, matvec>   RSym;
typedef GNU_gama::CovMat<double, int, matvec>   RCov;
typedef GNU_gama::BandMat<double, int, matvec>  RBand;
typedef GNU_gama::MatBase<double, int, matvec>  RBase;
typedef GNU_gama::VecBase<double, int, matvec>  RVBase;

namespace {

enum T { T_VEC, T_TVEC, T_MAT, T_TMAT, T_SYM, T_COV, T_BAND, NT };
const char* TN[] = {"Vec", "TransVec", "Mat", "TransMat", "SymMat", "CovMat", "BandMat"};
inline bool is_vec(int t) { return t == T_VEC || t == T_TVEC; }
inline bool is_banded(int t) { return t == T_COV || t == T_BAND; }
inline bool is_square_type(int t) { return t == T_SYM || t == T_COV || t == T_BAND; }

const int NSLOT = 8;
const int MAXD = 7;

// ------------------------------------------------------------- model --------
struct Model {
  int t = T_VEC, r = 0, c = 0, b = 0;   // vectors: r = dim, c = 1
  std::vector<double> d;                // dense r*c, row major
  bool moved = false;                   // moved-from: only destroy / assign-to / reset are legal
  double  at(int i, int j) const { return d[(size_t)(i - 1) * c + (j - 1)]; }
  double& at(int i, int j) { return d[(size_t)(i - 1) * c + (j - 1)]; }
  void shape(int t_, int r_, int c_, int b_ = 0) { t = t_; r = r_; c = c_; b = b_; d.assign((size_t)r * c, 0.0); moved = false; }
  bool inband(int i, int j) const { return !is_banded(t) || std::abs(i - j) <= b; }
};

struct Slot {
  bool live = false;
  Model m;
  std::unique_ptr<RVec> vec; std::unique_ptr<RTVec> tvec; std::unique_ptr<RMat> mat; std::unique_ptr<RTMat> tmat;
  std::unique_ptr<RSym> sym; std::unique_ptr<RCov> cov; std::unique_ptr<RBand> band;
  void drop() { vec.reset(); tvec.reset(); mat.reset(); tmat.reset(); sym.reset(); cov.reset(); band.reset(); live = false; m = Model(); }
  RBase* base() const
  {
    switch (m.t) { case T_MAT: return mat.get(); case T_TMAT: return tmat.get(); case T_SYM: return sym.get();
                   case T_COV: return cov.get(); case T_BAND: return band.get(); default: return nullptr; }
  }
  RVBase* vbase() const { return m.t == T_VEC ? (RVBase*)vec.get() : m.t == T_TVEC ? (RVBase*)tvec.get() : nullptr; }
};

struct Fail { std::string cls, note; };

double tolscale(double s) { return 1e-10 * (1.0 + s); }

// ------------------------------------------------------------- engine -------
class ObjsEngine : public Engine {
public:
  const char* name() const override { return "sim_objs"; }
  const char* property() const override { return "C15"; }

  Plan generate(uint64_t seed, uint64_t, const std::string& tier) override;
  Verdict execute(const Plan& plan, EventLog& log, Stats& st) override;
  std::vector<Plan> simplify(const Plan& p) override;

private:
  Slot S[NSLOT];
  EventLog* L = nullptr; Stats* ST = nullptr;
  int cur = 0;

  // value source: everything numeric in a step derives from the step's own arguments
  static double val(Rng& g) { long long k = g.range(-4, 4); if (g.chance(1, 3)) return (double)k + (double)g.range(-7, 7) / 8.0; return (double)k; }

  void   fill_real_and_model(Slot& s, uint64_t vs);
  void   make(Slot& s, int t, int r, int c, int b);
  double rget(const Slot& s, int i, int j) const;
  void   rset(Slot& s, int i, int j, double v);
  void   dims(const Slot& s, int& r, int& c, int& b) const;
  void   check_all(const char* op);
  void   check_slot(int idx, const char* op);
  uint64_t pool_hash() const;
  void   relation(const char* op, const Slot& dst, const Slot& src, bool same);

  void put_vec(int j, RVec&& v, const Model& m, long long how);
  void put_tvec(int j, RTVec&& v, const Model& m, long long how);
  void put_mat(int j, RMat&& v, const Model& m, long long how);
  void put_tmat(int j, RTMat&& v, const Model& m, long long how);
  void put_sym(int j, RSym&& v, const Model& m, long long how);

  void step(const Step& st, int idx);
  void op_new(const Step&); void op_cctor(const Step&); void op_casg(const Step&); void op_mctor(const Step&); void op_masg(const Step&);
  void op_reset0(const Step&); void op_reset(const Step&); void op_set(const Step&); void op_setall(const Step&);
  void op_scale(const Step&); void op_addsub(const Step&, bool add); void op_mul(const Step&); void op_smul(const Step&);
  void op_trans(const Step&); void op_inv(const Step&); void op_chol(const Step&); void op_svd(const Step&);
  void op_band(const Step&); void op_conv(const Step&); void op_io(const Step&); void op_norm(const Step&); void op_sort(const Step&); void op_inplace(const Step&); void op_gso(const Step&);

  int usable(long long k) const     // a live, not moved-from slot, chosen modulo
  {
    std::vector<int> v; for (int i = 0; i < NSLOT; i++) if (S[i].live && !S[i].m.moved) v.push_back(i);
    if (v.empty()) return -1; return v[(size_t)(k % (long long)v.size())];
  }
  int usable_of(long long k, std::initializer_list<int> types) const
  {
    std::vector<int> v;
    for (int i = 0; i < NSLOT; i++) if (S[i].live && !S[i].m.moved) for (int t : types) if (S[i].m.t == t) v.push_back(i);
    if (v.empty()) return -1; return v[(size_t)(k % (long long)v.size())];
  }
  void expect_throw(bool threw, bool should, const char* what)
  {
    if (threw && !should) throw Fail{fmt("C15:unexpected-exception:%s", what), "conforming operands raised an exception"};
    if (!threw && should) throw Fail{fmt("C15:missing-exception:%s", what), "non-conforming operands did not raise Exception::matvec"};
  }
};

// ----------------------------------------------------------- real access ----
void ObjsEngine::dims(const Slot& s, int& r, int& c, int& b) const
{
  b = 0;
  switch (s.m.t) {
    case T_VEC:  r = s.vec->dim(); c = 1; break;
    case T_TVEC: r = s.tvec->dim(); c = 1; break;
    case T_MAT:  r = s.mat->rows(); c = s.mat->cols(); break;
    case T_TMAT: r = s.tmat->rows(); c = s.tmat->cols(); break;
    case T_SYM:  r = s.sym->rows(); c = s.sym->cols(); if (s.sym->dim() != r) r = -1000 - s.sym->dim(); break;
    case T_COV:  r = s.cov->rows(); c = s.cov->cols(); b = s.cov->bandWidth(); if (s.cov->dim() != r) r = -1000; break;
    case T_BAND: r = s.band->rows(); c = s.band->cols(); b = s.band->bandWidth(); if (s.band->dim() != r) r = -1000; break;
  }
}

double ObjsEngine::rget(const Slot& s, int i, int j) const
{
  switch (s.m.t) {
    case T_VEC:  return (*(const RVec*)s.vec.get())(i);
    case T_TVEC: return (*(const RTVec*)s.tvec.get())(i);
    case T_MAT:  return (*(const RMat*)s.mat.get())(i, j);
    case T_TMAT: return (*(const RTMat*)s.tmat.get())(i, j);
    case T_SYM:  return (*(const RSym*)s.sym.get())(i, j);
    case T_COV:  return (*(const RCov*)s.cov.get())(i, j);
    case T_BAND: return (*(const RBand*)s.band.get())(i, j);
  }
  return 0;
}

void ObjsEngine::rset(Slot& s, int i, int j, double v)
{
  switch (s.m.t) {
    case T_VEC:  (*s.vec)(i) = v; break;
    case T_TVEC: (*s.tvec)(i) = v; break;
    case T_MAT:  (*s.mat)(i, j) = v; break;
    case T_TMAT: (*s.tmat)(i, j) = v; break;
    case T_SYM:  (*s.sym)(i, j) = v; break;
    case T_COV:  (*s.cov)(i, j) = v; break;
    case T_BAND: (*s.band)(i, j) = v; break;
  }
}

void ObjsEngine::make(Slot& s, int t, int r, int c, int b)
{
  s.drop(); s.live = true;
  if (is_square_type(t)) c = r;
  if (is_banded(t)) { if (b > r - 1) b = r - 1; if (b < 0) b = 0; } else b = 0;
  if (is_vec(t)) c = 1;
  s.m.shape(t, r, c, b);
  switch (t) {
    case T_VEC:  s.vec.reset(new RVec(r)); break;
    case T_TVEC: s.tvec.reset(new RTVec(r)); break;
    case T_MAT:  s.mat.reset(new RMat(r, c)); break;
    case T_TMAT: s.tmat.reset(new RTMat(c, r)); break;        // TransMat(r,c) constructs a c x r matrix
    case T_SYM:  s.sym.reset(new RSym(r)); break;
    case T_COV:  s.cov.reset(new RCov(r, b)); break;
    case T_BAND: s.band.reset(new RBand(r, b)); break;
  }
}

void ObjsEngine::fill_real_and_model(Slot& s, uint64_t vs)
{
  Rng g(vs * 2654435761ull + 17);
  Model& m = s.m;
  if (is_vec(m.t)) { for (int i = 1; i <= m.r; i++) { double v = val(g); m.at(i, 1) = v; rset(s, i, 1, v); } return; }
  bool symm = is_square_type(m.t);
  for (int i = 1; i <= m.r; i++)
    for (int j = (symm ? i : 1); j <= m.c; j++) {
      if (!m.inband(i, j)) continue;
      double v = val(g);
      m.at(i, j) = v; if (symm) m.at(j, i) = v;
      rset(s, i, j, v);
    }
}

// ------------------------------------------------------------ checking ------
static inline bool same_bits(double a, double b) { return (std::isnan(a) && std::isnan(b)) || a == b; }

void ObjsEngine::check_slot(int k, const char* op)
{
  const Slot& s = S[k];
  if (!s.live || s.m.moved) return;
  int r, c, b; dims(s, r, c, b);
  if (r != s.m.r || c != s.m.c || b != s.m.b)
    throw Fail{fmt("C15:dims-differ:%s:after-%s", TN[s.m.t], op),
               fmt("slot %d %s reports %dx%d band %d, model says %dx%d band %d", k, TN[s.m.t], r, c, b, s.m.r, s.m.c, s.m.b)};
  for (int i = 1; i <= s.m.r; i++)
    for (int j = 1; j <= s.m.c; j++) {
      double x = rget(s, i, j), y = s.m.at(i, j);
      if (!same_bits(x, y))
        throw Fail{fmt("C15:value-differs:%s:after-%s", TN[s.m.t], op),
                   fmt("slot %d %s element (%d,%d) is %s, model says %s", k, TN[s.m.t], i, j, hexfloat(x).c_str(), hexfloat(y).c_str())};
    }
}

void ObjsEngine::check_all(const char* op) { for (int k = 0; k < NSLOT; k++) check_slot(k, op); }

uint64_t ObjsEngine::pool_hash() const
{
  uint64_t h = 0xcbf29ce484222325ull;
  auto mix = [&](uint64_t v) { for (int i = 0; i < 8; i++) { h ^= (v >> (8 * i)) & 0xff; h *= 0x100000001b3ull; } };
  for (int k = 0; k < NSLOT; k++) {
    const Slot& s = S[k];
    mix(s.live ? 1 + s.m.t : 0);
    if (!s.live) continue;
    if (s.m.moved) { mix(999); continue; }
    int r, c, b; dims(s, r, c, b); mix(r); mix(c); mix(b);
    for (int i = 1; i <= s.m.r; i++) for (int j = 1; j <= s.m.c; j++) {
      double x = rget(s, i, j); uint64_t u; if (std::isnan(x)) u = 0x7ff8; else memcpy(&u, &x, 8); mix(u);
    }
  }
  return h;
}

void ObjsEngine::relation(const char* op, const Slot& dst, const Slot& src, bool same)
{
  const char* rel;
  size_t a = dst.live && !dst.m.moved ? dst.m.d.size() : 0, b = src.m.d.size();
  if (same) rel = "same-object";
  else if (!dst.live) rel = "target-new";
  else if (dst.m.moved) rel = "target-moved-from";
  else if (a == 0 && b == 0) rel = "both-empty";
  else if (a == 0) rel = "target-empty";
  else if (b == 0) rel = "source-empty";
  else if (a == b) rel = "equal";
  else if (a < b) rel = "larger";
  else rel = "smaller";
  ST->state("triples", fmt("%s/%s/%s", op, TN[src.m.t], rel));
}

// results of operations go back into the pool, by move or by copy
void ObjsEngine::put_vec(int j, RVec&& v, const Model& m, long long how)
{ Slot& s = S[j]; s.drop(); s.live = true; s.m = m; if (how & 1) s.vec.reset(new RVec(std::move(v))); else s.vec.reset(new RVec(v)); }
void ObjsEngine::put_tvec(int j, RTVec&& v, const Model& m, long long how)
{ Slot& s = S[j]; s.drop(); s.live = true; s.m = m; if (how & 1) s.tvec.reset(new RTVec(std::move(v))); else s.tvec.reset(new RTVec(v)); }
void ObjsEngine::put_mat(int j, RMat&& v, const Model& m, long long how)
{ Slot& s = S[j]; s.drop(); s.live = true; s.m = m; if (how & 1) s.mat.reset(new RMat(std::move(v))); else s.mat.reset(new RMat(v)); }
void ObjsEngine::put_tmat(int j, RTMat&& v, const Model& m, long long how)
{ Slot& s = S[j]; s.drop(); s.live = true; s.m = m; if (how & 1) s.tmat.reset(new RTMat(std::move(v))); else s.tmat.reset(new RTMat(v)); }
void ObjsEngine::put_sym(int j, RSym&& v, const Model& m, long long how)
{ Slot& s = S[j]; s.drop(); s.live = true; s.m = m; if (how & 1) s.sym.reset(new RSym(std::move(v))); else s.sym.reset(new RSym(v)); }

// --------------------------------------------------------------- ops --------
void ObjsEngine::op_new(const Step& st)
{
  int j = (int)(st.arg(0) % NSLOT), t = (int)(st.arg(1) % NT);
  int r = (int)(st.arg(2) % (MAXD + 1)), c = (int)(st.arg(3) % (MAXD + 1)), b = (int)(st.arg(4) % MAXD);
  make(S[j], t, r, c, b);
  fill_real_and_model(S[j], (uint64_t)st.arg(5));
  ST->state("triples", fmt("new/%s/%s", TN[t], S[j].m.d.empty() ? "empty" : "nonempty"));
}

void ObjsEngine::op_cctor(const Step& st)
{
  int j = (int)(st.arg(0) % NSLOT), k = usable(st.arg(1)); if (k < 0) return;
  if (j == k) j = (j + 1) % NSLOT;
  Slot& d = S[j]; const Slot& s = S[k];
  relation("copy-construct", d, s, false);
  Model m = s.m; int t = m.t;
  d.drop(); d.live = true; d.m = m;
  switch (t) {
    case T_VEC: d.vec.reset(new RVec(*s.vec)); break;
    case T_TVEC: d.tvec.reset(new RTVec(*s.tvec)); break;
    case T_MAT: d.mat.reset(new RMat(*s.mat)); break;
    case T_TMAT: d.tmat.reset(new RTMat(*s.tmat)); break;
    case T_SYM: d.sym.reset(new RSym(*s.sym)); break;
    case T_COV: d.cov.reset(new RCov(*s.cov)); break;
    case T_BAND: d.band.reset(new RBand(*s.band)); break;
  }
}

static int find_same_type(const Slot* S, int t, long long k, bool allow_moved)
{
  std::vector<int> v;
  for (int i = 0; i < NSLOT; i++) if (S[i].live && S[i].m.t == t && (allow_moved || !S[i].m.moved)) v.push_back(i);
  if (v.empty()) return -1;
  return v[(size_t)(k % (long long)v.size())];
}

void ObjsEngine::op_casg(const Step& st)
{
  int k = usable(st.arg(1)); if (k < 0) return;
  int j = find_same_type(S, S[k].m.t, st.arg(0), true); if (j < 0) return;
  Slot& d = S[j]; const Slot& s = S[k];
  relation("copy-assign", d, s, j == k);
  switch (s.m.t) {
    case T_VEC: *d.vec = *s.vec; break;
    case T_TVEC: *d.tvec = *s.tvec; break;
    case T_MAT: *d.mat = *s.mat; break;
    case T_TMAT: *d.tmat = *s.tmat; break;
    case T_SYM: *d.sym = *s.sym; break;
    case T_COV: *d.cov = *s.cov; break;
    case T_BAND: *d.band = *s.band; break;
  }
  if (j != k) d.m = s.m;
}

void ObjsEngine::op_mctor(const Step& st)
{
  int j = (int)(st.arg(0) % NSLOT), k = usable(st.arg(1)); if (k < 0) return;
  if (j == k) j = (j + 1) % NSLOT;
  Slot& d = S[j]; Slot& s = S[k];
  relation("move-construct", d, s, false);
  Model m = s.m;
  d.drop(); d.live = true; d.m = m;
  switch (m.t) {
    case T_VEC: d.vec.reset(new RVec(std::move(*s.vec))); break;
    case T_TVEC: d.tvec.reset(new RTVec(std::move(*s.tvec))); break;
    case T_MAT: d.mat.reset(new RMat(std::move(*s.mat))); break;
    case T_TMAT: d.tmat.reset(new RTMat(std::move(*s.tmat))); break;
    case T_SYM: d.sym.reset(new RSym(std::move(*s.sym))); break;
    case T_COV: d.cov.reset(new RCov(std::move(*s.cov))); break;
    case T_BAND: d.band.reset(new RBand(std::move(*s.band))); break;
  }
  s.m.moved = true;
}

void ObjsEngine::op_masg(const Step& st)
{
  int k = usable(st.arg(1)); if (k < 0) return;
  int j = find_same_type(S, S[k].m.t, st.arg(0), true); if (j < 0) return;
  Slot& d = S[j]; Slot& s = S[k];
  relation("move-assign", d, s, j == k);
  switch (s.m.t) {
    case T_VEC: *d.vec = std::move(*s.vec); break;
    case T_TVEC: *d.tvec = std::move(*s.tvec); break;
    case T_MAT: *d.mat = std::move(*s.mat); break;
    case T_TMAT: *d.tmat = std::move(*s.tmat); break;
    case T_SYM: *d.sym = std::move(*s.sym); break;
    case T_COV: *d.cov = std::move(*s.cov); break;
    case T_BAND: *d.band = std::move(*s.band); break;
  }
  if (j != k) { d.m = s.m; s.m.moved = true; }
}

void ObjsEngine::op_reset0(const Step& st)
{
  std::vector<int> v; for (int i = 0; i < NSLOT; i++) if (S[i].live) v.push_back(i);
  if (v.empty()) return;
  Slot& s = S[v[(size_t)(st.arg(0) % (long long)v.size())]];
  ST->state("triples", fmt("reset0/%s/%s", TN[s.m.t], s.m.moved ? "moved-from" : s.m.d.empty() ? "empty" : "nonempty"));
  switch (s.m.t) {
    case T_VEC: s.vec->reset(); break;
    case T_TVEC: s.tvec->reset(); break;
    case T_MAT: s.mat->reset(); break;
    case T_TMAT: static_cast<RBase&>(*s.tmat).reset(); break;   // TransMat hides reset(); MatBase::reset() is what a user can call
    case T_SYM: s.sym->reset(0); break;
    case T_COV: s.cov->reset(); break;
    case T_BAND: s.band->reset(); break;
  }
  s.m.shape(s.m.t, 0, is_vec(s.m.t) ? 1 : 0, 0);
}

void ObjsEngine::op_reset(const Step& st)
{
  std::vector<int> v; for (int i = 0; i < NSLOT; i++) if (S[i].live) v.push_back(i);
  if (v.empty()) return;
  Slot& s = S[v[(size_t)(st.arg(0) % (long long)v.size())]];
  int t = s.m.t;
  int r = (int)(st.arg(1) % (MAXD + 1)), c = (int)(st.arg(2) % (MAXD + 1)), b = (int)(st.arg(3) % MAXD);
  bool same_as_now = st.arg(4) % 4 == 0 && !s.m.moved;      // a quarter of resets ask for the current dimensions
  bool via_base = (st.arg(4) / 4) % 2 == 1;
  if (same_as_now) { r = s.m.r; c = s.m.c; b = s.m.b; }
  if (is_vec(t)) c = 1;
  if (is_square_type(t)) c = r;
  if (is_banded(t)) { if (b > r - 1) b = r - 1; if (b < 0) b = 0; } else b = 0;
  Model before = s.m;
  bool unchanged = !s.m.moved && r == s.m.r && c == s.m.c && b == s.m.b;
  const char* rel = s.m.moved ? "moved-from" : unchanged ? "equal" : (size_t)r * c > s.m.d.size() ? "larger" : (size_t)r * c < s.m.d.size() ? "smaller" : "reshape";
  ST->state("triples", fmt("reset/%s/%s%s", TN[t], rel, via_base ? "/base" : ""));
  switch (t) {
    case T_VEC: s.vec->reset(r); break;
    case T_TVEC: s.tvec->reset(r); break;
    case T_MAT: if (via_base) static_cast<RBase&>(*s.mat).reset(r, c); else s.mat->reset(r, c); break;
    case T_TMAT: if (via_base) static_cast<RBase&>(*s.tmat).reset(r, c); else s.tmat->reset(r, c); break;
    case T_SYM: if (via_base) static_cast<RBase&>(*s.sym).reset(r, r); else if (st.arg(4) & 64) s.sym->reset(r, r); else s.sym->reset(r); break;
    case T_COV: if (via_base) static_cast<RBase&>(*s.cov).reset(r, b); else s.cov->reset(r, b); break;
    case T_BAND: s.band->reset(r, b); break;
  }
  if (unchanged) { s.m = before; check_slot((int)(&s - S), "reset-same-dims"); }   // same dimensions: content is kept
  s.m.shape(t, r, c, b);
  // the content after a resize is unspecified: define it before anything reads it
  int rr, cc, bb; dims(s, rr, cc, bb);
  if (rr != r || cc != c || bb != b)
    throw Fail{fmt("C15:dims-differ:%s:after-reset", TN[t]), fmt("reset(%d,%d,band %d) left %dx%d band %d", r, c, b, rr, cc, bb)};
  fill_real_and_model(s, (uint64_t)st.arg(5));
}

void ObjsEngine::op_set(const Step& st)
{
  int k = usable(st.arg(0)); if (k < 0) return; Slot& s = S[k];
  if (s.m.d.empty()) return;
  int i = 1 + (int)(st.arg(1) % s.m.r), j = 1 + (int)(st.arg(2) % s.m.c);
  if (is_banded(s.m.t) && std::abs(i - j) > s.m.b) j = i;
  Rng g((uint64_t)st.arg(3)); double v = val(g);
  rset(s, i, j, v); s.m.at(i, j) = v; if (is_square_type(s.m.t)) s.m.at(j, i) = v;
  ST->state("triples", fmt("set/%s/-", TN[s.m.t]));
}

void ObjsEngine::op_setall(const Step& st)
{
  int k = usable(st.arg(0)); if (k < 0) return; Slot& s = S[k];
  int kind = (int)(st.arg(1) % 3);
  Rng g((uint64_t)st.arg(2)); double v = val(g);
  RBase* mb = s.base(); RVBase* vb = s.vbase();
  if (kind == 2 && !mb) kind = 1;
  ST->state("triples", fmt("%s/%s/%s", kind == 0 ? "set_all" : kind == 1 ? "set_zero" : "set_identity", TN[s.m.t], s.m.d.empty() ? "empty" : "nonempty"));
  if (kind == 0) { if (mb) mb->set_all(v); else vb->set_all(v); }
  else if (kind == 1) { v = 0; if (mb) mb->set_zero(); else vb->set_zero(); }
  else mb->set_identity();
  for (int i = 1; i <= s.m.r; i++) for (int j = 1; j <= s.m.c; j++)
    s.m.at(i, j) = !s.m.inband(i, j) ? 0.0 : kind == 2 ? (i == j ? 1.0 : 0.0) : v;
}

void ObjsEngine::op_scale(const Step& st)
{
  int k = usable(st.arg(0)); if (k < 0) return; Slot& s = S[k];
  static const double F[] = {2, -1, 0.5, 3, 0.25, -2, 1, 4};
  double f = F[st.arg(1) % 8]; bool div = st.arg(2) % 2;
  ST->state("triples", fmt("%s/%s/%s", div ? "div-assign" : "mul-assign", TN[s.m.t], s.m.d.empty() ? "empty" : "nonempty"));
  // The factor may be an ELEMENT OF THE OBJECT ITSELF, handed over as the reference operator() returns (v *= v(k),
  // A *= A(i,j)): the product is defined by the value the element has when the call is made.
  bool aliased = false;
  if (!div && (st.arg(2) / 2) % 3 == 1 && !s.m.d.empty()) {
    int i = 1 + (int)((st.arg(1) / 8) % s.m.r), j = 1 + (int)((st.arg(1) / 64) % s.m.c);
    if (s.m.inband(i, j)) {
      double e = s.m.at(i, j);
      if (std::fabs(e) >= 0.25 && std::fabs(e) <= 4) {
        aliased = true; f = e;
        ST->state("triples", fmt("mul-assign-by-own-element/%s", TN[s.m.t]));
        if (s.m.t == T_VEC) *s.vec *= (*s.vec)(i);
        else if (RBase* mb = s.base()) *mb *= (*mb)(i, j);
        else { RVBase* vb = s.vbase(); *vb *= (*vb)(i); }
      }
    }
  }
  // MatVecBase::operator*=, /= (in place); Vec has its own operator*= too
  if (aliased) {}
  else if (s.m.t == T_VEC && !div) *s.vec *= f;
  else if (RBase* mb = s.base()) { if (div) *mb /= f; else *mb *= f; }
  else { RVBase* vb = s.vbase(); if (div) *vb /= f; else *vb *= f; }
  double mf = div ? 1 / f : f;      // library: operator/= is operator*=(1/f); the factors used are exact powers of two or make 1/f exact where tested
  for (auto& x : s.m.d) x = x * mf;
}

static Model dense_of(const Model& a) { Model m = a; m.t = T_MAT; m.b = 0; return m; }

void ObjsEngine::op_addsub(const Step& st, bool add)
{
  int j = (int)(st.arg(0) % NSLOT), ia = usable(st.arg(1)), ib = usable(st.arg(2));
  if (ia < 0 || ib < 0) return;
  // bias: half of the time look for a partner of the same type (otherwise most pairs are mixed)
  if (st.arg(3) % 2 == 0) { int k = find_same_type(S, S[ia].m.t, st.arg(2), false); if (k >= 0) ib = k; }
  const Slot &A = S[ia], &B = S[ib];
  int ta = A.m.t, tb = B.m.t;
  if (is_vec(ta) != is_vec(tb)) return;
  if (is_vec(ta) && ta != tb) return;
  bool conform = A.m.r == B.m.r && A.m.c == B.m.c;
  bool via_base = st.arg(4) % 3 == 0;
  bool inplace = st.arg(4) % 3 == 1;
  const char* opn = add ? "add" : "sub";
  Model R; R.shape(ta, A.m.r, A.m.c, 0);
  if (conform) for (size_t i = 0; i < R.d.size(); i++) R.d[i] = add ? A.m.d[i] + B.m.d[i] : A.m.d[i] - B.m.d[i];
  bool threw = false;
  ST->state("triples", fmt("%s%s/%s+%s/%s", opn, via_base ? "-base" : inplace ? "-assign" : "", TN[ta], TN[tb], conform ? "conforming" : "non-conforming"));
  try {
    if (ta == T_VEC) {
      if (inplace) {   // Vec::operator+=, -= : the left operand is changed in place
        Slot& AA = S[ia];
        if (add) *AA.vec += *B.vec; else *AA.vec -= *B.vec;
        if (conform) AA.m.d = R.d;
        L->line("  %s-assign Vec", opn);
      } else { RVec r = add ? *A.vec + *B.vec : *A.vec - *B.vec; R.t = T_VEC; put_vec(j, std::move(r), R, st.arg(5)); }
    } else if (ta == T_TVEC) { RTVec r = add ? *A.tvec + *B.tvec : *A.tvec - *B.tvec; R.t = T_TVEC; put_tvec(j, std::move(r), R, st.arg(5)); }
    else if (ta == T_MAT && tb == T_MAT && !via_base) { RMat r = add ? *A.mat + *B.mat : *A.mat - *B.mat; R.t = T_MAT; put_mat(j, std::move(r), R, st.arg(5)); }
    else if (ta == T_TMAT && tb == T_TMAT && !via_base) { RTMat r = add ? *A.tmat + *B.tmat : *A.tmat - *B.tmat; R.t = T_TMAT; put_tmat(j, std::move(r), R, st.arg(5)); }
    else if (ta == T_MAT && tb == T_TMAT && !via_base) { RMat r = add ? *A.mat + *B.tmat : *A.mat - *B.tmat; R.t = T_MAT; put_mat(j, std::move(r), R, st.arg(5)); }
    else if (ta == T_TMAT && tb == T_MAT && !via_base) { RMat r = add ? *A.tmat + *B.mat : *A.tmat - *B.mat; R.t = T_MAT; put_mat(j, std::move(r), R, st.arg(5)); }
    else if (ta == T_SYM && tb == T_SYM && !via_base) {
      if (inplace) { Slot& AA = S[ia]; if (add) *AA.sym += *B.sym; else *AA.sym -= *B.sym; if (conform) AA.m.d = R.d; L->line("  %s-assign SymMat", opn); }
      else if (st.arg(4) % 2) { RSym r = add ? GNU_gama::operator+<double, int, matvec>(*A.sym, *B.sym) : GNU_gama::operator-<double, int, matvec>(*A.sym, *B.sym); R.t = T_SYM; put_sym(j, std::move(r), R, st.arg(5)); }
      else { RSym r = add ? A.sym->operator+(*B.sym) : A.sym->operator-(*B.sym); R.t = T_SYM; put_sym(j, std::move(r), R, st.arg(5)); }
    } else {
      const RBase &a = *A.base(), &b = *B.base();
      RMat r = add ? a + b : a - b; R.t = T_MAT; put_mat(j, std::move(r), R, st.arg(5));
    }
  } catch (const matvec&) { threw = true; }
  expect_throw(threw, !conform, opn);
}

static void mm(const Model& A, const Model& B, Model& R, double& scale)
{
  R.shape(T_MAT, A.r, B.c, 0); scale = 0;
  for (int i = 1; i <= A.r; i++) for (int j = 1; j <= B.c; j++) {
    double s = 0, sa = 0; for (int k = 1; k <= A.c; k++) { s += A.at(i, k) * B.at(k, j); sa += std::fabs(A.at(i, k) * B.at(k, j)); }
    R.at(i, j) = s; if (sa > scale) scale = sa;
  }
}

// compare a freshly computed real result with the model within the algebra tolerance, then make the
// model carry the real bits (later steps compare exactly against what the library actually returned)
template <class Get> static void adopt(Model& R, double scale, Get get, const char* what)
{
  for (int i = 1; i <= R.r; i++) for (int j = 1; j <= R.c; j++) {
    double x = get(i, j), y = R.at(i, j);
    // values that have overflowed (long chains of products) carry no information: inf == inf, nan is nan
    bool both_lost = (!std::isfinite(x) && !std::isfinite(y)) || !std::isfinite(scale);
    if (!both_lost && !(std::fabs(x - y) <= tolscale(scale)))
      throw Fail{fmt("C15:algebra:%s", what), fmt("element (%d,%d) is %s, definition gives %s", i, j, hexfloat(x).c_str(), hexfloat(y).c_str())};
    R.at(i, j) = x;
  }
}

void ObjsEngine::op_mul(const Step& st)
{
  int j = (int)(st.arg(0) % NSLOT), ia = usable(st.arg(1)), ib = usable(st.arg(2));
  if (ia < 0 || ib < 0) return;
  if (st.arg(3) % 2 == 0) {      // bias towards conforming pairs
    for (int d = 0; d < NSLOT; d++) { int k = (ib + d) % NSLOT; if (S[k].live && !S[k].m.moved && !(is_vec(S[ia].m.t)) && (is_vec(S[k].m.t) ? S[k].m.t == T_VEC : true) && S[k].m.r == S[ia].m.c) { ib = k; break; } }
  }
  const Slot &A = S[ia], &B = S[ib];
  int ta = A.m.t, tb = B.m.t;
  bool via_base = st.arg(4) % 3 == 0;
  Model R; double sc = 0; bool threw = false;
  auto tag = [&](const char* n, bool conf) { ST->state("triples", fmt("mul-%s/%s*%s/%s", n, TN[ta], TN[tb], conf ? "conforming" : "non-conforming")); };
  if (!is_vec(ta) && !is_vec(tb)) {
    bool conform = A.m.c == B.m.r;
    if (conform) mm(A.m, B.m, R, sc);
    try {
      if (ta == T_SYM && tb == T_SYM && !via_base) {
        bool c2 = A.m.r == B.m.r; tag("symsym", c2); conform = c2;
        RSym r = *A.sym * *B.sym;
        // SymMat*SymMat returns the lower triangle of the product in a SymMat
        Model RS; RS.shape(T_SYM, A.m.r, A.m.r, 0);
        for (int i = 1; i <= A.m.r; i++) for (int k = 1; k <= i; k++) {
          double x = r(i, k), y = R.at(i, k);
          if (!(std::fabs(x - y) <= tolscale(sc))) throw Fail{"C15:algebra:SymMat*SymMat", fmt("lower element (%d,%d) is %s, definition gives %s", i, k, hexfloat(x).c_str(), hexfloat(y).c_str())};
          RS.at(i, k) = RS.at(k, i) = x;
        }
        put_sym(j, std::move(r), RS, st.arg(5));
      } else if (ta == T_MAT && tb == T_SYM && !via_base) { tag("matsym", conform); RMat r = *A.mat * *B.sym; adopt(R, sc, [&](int i, int k) { return r(i, k); }, "Mat*SymMat"); put_mat(j, std::move(r), R, st.arg(5)); }
      else if (ta == T_MAT && tb == T_MAT && !via_base) { tag("matmat", conform); RMat r = *A.mat * *B.mat; adopt(R, sc, [&](int i, int k) { return r(i, k); }, "Mat*Mat"); put_mat(j, std::move(r), R, st.arg(5)); }
      else if (ta == T_TMAT && tb == T_MAT && !via_base) { tag("tmatmat", conform); RMat r = *A.tmat * *B.mat; adopt(R, sc, [&](int i, int k) { return r(i, k); }, "TransMat*Mat"); put_mat(j, std::move(r), R, st.arg(5)); }
      else if (ta == T_MAT && tb == T_TMAT && !via_base) { tag("mattmat", conform); RMat r = *A.mat * *B.tmat; adopt(R, sc, [&](int i, int k) { return r(i, k); }, "Mat*TransMat"); put_mat(j, std::move(r), R, st.arg(5)); }
      else if (ta == T_TMAT && tb == T_TMAT && !via_base) { tag("tmattmat", conform); RMat r = *A.tmat * *B.tmat; adopt(R, sc, [&](int i, int k) { return r(i, k); }, "TransMat*TransMat"); put_mat(j, std::move(r), R, st.arg(5)); }
      else { tag("base", conform); const RBase &a = *A.base(), &b = *B.base(); RMat r = a * b; adopt(R, sc, [&](int i, int k) { return r(i, k); }, "MatBase*MatBase"); put_mat(j, std::move(r), R, st.arg(5)); }
    } catch (const matvec&) { threw = true; }
    expect_throw(threw, !conform, "mul");
    return;
  }
  if (!is_vec(ta) && tb == T_VEC) {          // matrix * Vec
    bool conform = A.m.c == B.m.r;
    if (conform) mm(A.m, B.m, R, sc);
    R.t = T_VEC;
    // CovMat::operator*(Vec) and BandMat::operator*(Vec) carry no rank check: only conforming operands are issued to them
    bool unchecked = (ta == T_COV || ta == T_BAND) && !via_base;
    if (unchecked && !conform) return;
    try {
      RVec r;
      if (ta == T_MAT && !via_base) { tag("matvec", conform); r = *A.mat * *B.vec; }
      else if (ta == T_TMAT && !via_base) { tag("tmatvec", conform); r = *A.tmat * *B.vec; }
      else if (ta == T_COV && !via_base) { tag("covvec", conform); r = *A.cov * *B.vec; }
      else if (ta == T_BAND && !via_base) { tag("bandvec", conform); r = *A.band * *B.vec; }
      else { tag("basevec", conform); const RBase& a = *A.base(); r = a * *B.vec; }
      adopt(R, sc, [&](int i, int) { return r(i); }, fmt("%s*Vec", via_base ? "MatBase" : TN[ta]).c_str());
      put_vec(j, std::move(r), R, st.arg(5));
    } catch (const matvec&) { threw = true; }
    expect_throw(threw, !conform, "mul-vec");
    return;
  }
  if (ta == T_TVEC && !is_vec(tb)) {         // TransVec * matrix
    bool conform = A.m.r == B.m.r;
    Model At; At.shape(T_MAT, 1, A.m.r, 0); At.d = A.m.d;
    if (conform) mm(At, B.m, R, sc);
    Model RV; RV.shape(T_TVEC, B.m.c, 1, 0);
    try {
      RTVec r;
      if (tb == T_MAT && !via_base) { tag("tvecmat", conform); r = *A.tvec * *B.mat; }
      else { tag("tvecbase", conform); const RBase& b = *B.base(); r = *A.tvec * b; }
      if (conform) { for (int k = 1; k <= B.m.c; k++) RV.at(k, 1) = R.at(1, k); }
      adopt(RV, sc, [&](int i, int) { return r(i); }, (tb == T_MAT && !via_base) ? "TransVec*Mat" : "TransVec*MatBase");
      put_tvec(j, std::move(r), RV, st.arg(5));
    } catch (const matvec&) { threw = true; }
    expect_throw(threw, !conform, "tvec-mul");
    return;
  }
  if (ta == T_TVEC && tb == T_VEC) {         // scalar product
    bool conform = A.m.r == B.m.r; tag("dot", conform);
    try {
      double x = *A.tvec * *B.vec;
      double y = 0, s = 0; for (int i = 1; i <= A.m.r; i++) { y += A.m.at(i, 1) * B.m.at(i, 1); s += std::fabs(A.m.at(i, 1) * B.m.at(i, 1)); }
      if (conform && !(std::fabs(x - y) <= tolscale(s))) throw Fail{"C15:algebra:TransVec*Vec", fmt("dot is %s, definition gives %s", hexfloat(x).c_str(), hexfloat(y).c_str())};
      L->line("  dot %s", hexfloat(x).c_str());
    } catch (const matvec&) { threw = true; }
    expect_throw(threw, !conform, "dot");
    return;
  }
}

void ObjsEngine::op_smul(const Step& st)
{
  int j = (int)(st.arg(0) % NSLOT), ia = usable_of(st.arg(1), {T_VEC, T_TVEC, T_MAT, T_SYM}); if (ia < 0) return;   // TransMat::operator*(Float) does not compile in the pinned tree (unqualified mul), so it has no behaviour to check
  static const double F[] = {2, -1, 0.5, 3, 0.25, -2, 1, 0};
  double f = F[st.arg(2) % 8]; bool left = st.arg(3) % 2;
  const Slot& A = S[ia]; Model R = A.m; for (auto& x : R.d) x = x * f;
  ST->state("triples", fmt("scalar-mul/%s/%s", TN[A.m.t], left ? "left" : "right"));
  switch (A.m.t) {
    case T_VEC: { RVec r = left ? f * *A.vec : *A.vec * f; put_vec(j, std::move(r), R, st.arg(4)); break; }
    case T_TVEC: { RTVec r = left ? f * *A.tvec : *A.tvec * f; put_tvec(j, std::move(r), R, st.arg(4)); break; }
    case T_MAT: { RMat r = left ? f * *A.mat : *A.mat * f; put_mat(j, std::move(r), R, st.arg(4)); break; }
    case T_SYM: { RSym r = left ? f * *A.sym : *A.sym * f; put_sym(j, std::move(r), R, st.arg(4)); break; }
  }
}

void ObjsEngine::op_trans(const Step& st)
{
  int j = (int)(st.arg(0) % NSLOT), ia = usable_of(st.arg(1), {T_VEC, T_TVEC, T_MAT, T_TMAT, T_SYM}); if (ia < 0) return;
  const Slot& A = S[ia]; int kind = (int)(st.arg(2) % 3);
  Model R;
  ST->state("triples", fmt("trans%d/%s/%s", kind, TN[A.m.t], A.m.d.empty() ? "empty" : "nonempty"));
  switch (A.m.t) {
    case T_VEC: { R = A.m; R.t = T_TVEC; RTVec r = trans(*A.vec); put_tvec(j, std::move(r), R, st.arg(3)); break; }
    case T_TVEC: { R = A.m; R.t = T_VEC; RVec r = trans(*A.tvec); put_vec(j, std::move(r), R, st.arg(3)); break; }
    case T_SYM: { R = A.m; RSym r = trans(*A.sym); put_sym(j, std::move(r), R, st.arg(3)); break; }
    case T_MAT: {
      R.shape(T_TMAT, A.m.c, A.m.r, 0); for (int i = 1; i <= A.m.r; i++) for (int k = 1; k <= A.m.c; k++) R.at(k, i) = A.m.at(i, k);
      if (kind == 2) {           // Mat::transpose() in place
        if (j == ia) j = (j + 1) % NSLOT;
        RMat r = *A.mat; r.transpose(); R.t = T_MAT; put_mat(j, std::move(r), R, st.arg(3));
      } else { RTMat r = trans(*A.mat); put_tmat(j, std::move(r), R, st.arg(3)); }
      break;
    }
    case T_TMAT: {
      if (kind == 0) { R.shape(T_MAT, A.m.c, A.m.r, 0); for (int i = 1; i <= A.m.r; i++) for (int k = 1; k <= A.m.c; k++) R.at(k, i) = A.m.at(i, k);
                       RMat r = trans(*A.tmat); put_mat(j, std::move(r), R, st.arg(3)); }
      else { R = A.m; R.t = T_MAT; RMat r(*A.tmat); put_mat(j, std::move(r), R, st.arg(3)); }   // Mat(const TransMat&): same matrix, other storage
      break;
    }
  }
}

// model-side Gauss-Jordan with partial pivoting; returns false when not safely invertible
static bool model_inverse(const Model& A, Model& X, double& cond_est)
{
  int n = A.r; X.shape(T_MAT, n, n, 0);
  std::vector<long double> a((size_t)n * 2 * n);
  auto at = [&](int i, int j) -> long double& { return a[(size_t)i * 2 * n + j]; };
  long double amax = 0;
  for (int i = 0; i < n; i++) for (int j = 0; j < n; j++) { at(i, j) = A.at(i + 1, j + 1); at(i, n + j) = i == j; amax = std::max(amax, fabsl(at(i, j))); }
  if (amax < 1e-3 || amax > 1e6) return false;   // Mat::invert tests pivots against an ABSOLUTE tolerance (1000 eps): only matrices of ordinary magnitude are judged
  long double minpiv = 1e300L;
  for (int c = 0; c < n; c++) {
    int p = c; for (int i = c + 1; i < n; i++) if (fabsl(at(i, c)) > fabsl(at(p, c))) p = i;
    if (fabsl(at(p, c)) < 1e-6L * amax) return false;
    minpiv = std::min(minpiv, fabsl(at(p, c)));
    if (p != c) for (int j = 0; j < 2 * n; j++) std::swap(at(p, j), at(c, j));
    long double d = at(c, c); for (int j = 0; j < 2 * n; j++) at(c, j) /= d;
    for (int i = 0; i < n; i++) if (i != c) { long double f = at(i, c); if (f != 0) for (int j = 0; j < 2 * n; j++) at(i, j) -= f * at(c, j); }
  }
  long double xmax = 0;
  for (int i = 0; i < n; i++) for (int j = 0; j < n; j++) { X.at(i + 1, j + 1) = (double)at(i, n + j); xmax = std::max(xmax, fabsl(at(i, n + j))); }
  cond_est = (double)(amax * xmax * n);
  return cond_est < 1e5;
}

void ObjsEngine::op_inv(const Step& st)
{
  int j = (int)(st.arg(0) % NSLOT);
  int ia = usable_of(st.arg(1), {T_MAT, T_MAT, T_SYM}); if (ia < 0) return;
  const Slot& A = S[ia];
  bool inplace = st.arg(2) % 2;
  if (A.m.t == T_MAT) {
    bool square = A.m.r == A.m.c;
    Model X; double cond = 0; bool good = square && A.m.r > 0 && model_inverse(A.m, X, cond);
    ST->state("triples", fmt("inv/Mat/%s", !square ? "non-square" : good ? "well-conditioned" : "other"));
    L->line("  inv Mat %dx%d good=%d cond=%s", A.m.r, A.m.c, (int)good, hexfloat(cond).c_str());
    if (square && !good && A.m.r > 0) {
      // singular or doubtful: the call must stay memory safe, the answer is not judged
      try { RMat r = inv(*A.mat); (void)r; } catch (const matvec&) {}
      return;
    }
    bool threw = false;
    try {
      RMat r = *A.mat;
      if (inplace) r.invert(); else r = inv(*A.mat);
      if (square) {
        // inv(A)*A = I and A*inv(A) = I, to a tolerance scaled by the condition estimate
        Model XR; XR.shape(T_MAT, A.m.r, A.m.r, 0);
        for (int i = 1; i <= A.m.r; i++) for (int k = 1; k <= A.m.r; k++) XR.at(i, k) = r(i, k);
        Model P; double sc; mm(XR, A.m, P, sc);
        for (int i = 1; i <= A.m.r; i++) for (int k = 1; k <= A.m.r; k++)
          if (!(std::fabs(P.at(i, k) - (i == k)) <= 1e-10 * (1 + cond)))
            throw Fail{"C15:algebra:inv(Mat)", fmt("(inv(A)*A)(%d,%d) = %s", i, k, hexfloat(P.at(i, k)).c_str())};
        put_mat(j, std::move(r), XR, st.arg(3));
      }
    } catch (const matvec&) { threw = true; }
    if (threw && square) {
      std::string dump; for (int i = 1; i <= A.m.r; i++) { for (int k = 1; k <= A.m.c; k++) dump += fmt(" %g", A.m.at(i, k)); dump += ";"; }
      throw Fail{"C15:unexpected-exception:inv", "well-conditioned matrix [" + dump + " ] raised an exception in invert()"};
    }
    expect_throw(threw, !square, "inv");
    return;
  }
  // SymMat::invert / inv(SymMat) for positive definite matrices
  {
    int n = A.m.r;
    Model X; double cond = 0; bool good = n > 0 && model_inverse(A.m, X, cond);
    // positive definite? (model Cholesky)
    bool pd = good;
    if (pd) {
      std::vector<long double> l((size_t)n * n, 0);
      for (int i = 0; i < n && pd; i++) for (int k = 0; k <= i; k++) {
        long double s = A.m.at(i + 1, k + 1); for (int q = 0; q < k; q++) s -= l[i * n + q] * l[k * n + q];
        if (i == k) { if (s <= 1e-6L) { pd = false; break; } l[i * n + i] = sqrtl(s); } else l[i * n + k] = s / l[k * n + k];
      }
    }
    ST->state("triples", fmt("inv/SymMat/%s", pd ? "positive-definite" : "other"));
    if (!pd) { try { RSym r = *A.sym; if (n > 0) r.invert(); } catch (const matvec&) {} return; }
    RSym r = *A.sym;
    if (inplace) r.invert(); else r = inv(*A.sym);
    Model XR; XR.shape(T_SYM, n, n, 0);
    for (int i = 1; i <= n; i++) for (int k = 1; k <= n; k++) XR.at(i, k) = r(i, k);
    Model P; double sc; mm(XR, A.m, P, sc);
    for (int i = 1; i <= n; i++) for (int k = 1; k <= n; k++)
      if (!(std::fabs(P.at(i, k) - (i == k)) <= 1e-10 * (1 + cond)))
        throw Fail{"C15:algebra:inv(SymMat)", fmt("(inv(A)*A)(%d,%d) = %s", i, k, hexfloat(P.at(i, k)).c_str())};
    put_sym(j, std::move(r), XR, st.arg(3));
  }
}

// make slot j a symmetric positive definite matrix (diagonally dominant), type Sym/Cov/Band
static void spd_values(Model& m, Rng& g)
{
  int n = m.r;
  for (int i = 1; i <= n; i++) for (int k = i + 1; k <= n; k++) {
    double v = m.inband(i, k) ? (double)g.range(-3, 3) + (g.chance(1, 2) ? (double)g.range(-3, 3) / 4.0 : 0.0) : 0.0;
    m.at(i, k) = m.at(k, i) = v;
  }
  for (int i = 1; i <= n; i++) { double s = 0; for (int k = 1; k <= n; k++) if (k != i) s += std::fabs(m.at(i, k)); m.at(i, i) = s + 1 + (double)g.range(0, 4); }
}

void ObjsEngine::op_chol(const Step& st)
{
  // new SPD object in slot j, then factorisation of a COPY and solve, checked against the definition
  int j = (int)(st.arg(0) % NSLOT); static const int TT[] = {T_SYM, T_COV, T_BAND};
  int t = TT[st.arg(1) % 3]; int n = 1 + (int)(st.arg(2) % MAXD); int b = (int)(st.arg(3) % MAXD);
  Rng g((uint64_t)st.arg(4) * 77 + 5);
  if (st.arg(4) % 5 == 0) {
    // one factorisation in five gets an EXACTLY singular positive semidefinite matrix of small integers, C = G*G' with
    // G of n x r, r < n: every entry and the rank deficiency are exact, so "positive definite" is a wrong answer.  The
    // refusal is the documented one: SymMat reports a nullity, CovMat and BandMat raise NonPositiveDefinite.
    // Only where the refusal is PROVABLE for the tolerances the library documents (a threshold test cannot refuse every
    // singular matrix: rounding noise in the last pivot grows with 1/(an earlier small pivot)).  Rank one: the second
    // pivot c22 - (c12/c11)*c12 is pure rounding noise of at most eps*c22, below CovMat's N*eps*max(diag) and far below
    // the 1e-8*diag of SymMat/BandMat.  Rank two is added for SymMat/BandMat up to 3 x 3, where integer minors bound
    // the noise by about 1e-10.
    n = 2 + (int)(st.arg(2) % 3); int r = 1 + (int)(st.arg(3) % (n - 1));
    if (t == T_COV || n > 3) r = 1;
    Slot& z = S[j]; make(z, t, n, n, n - 1);
    std::vector<int> G((size_t)n * r); { int lim = r == 1 && g.chance(2, 3) ? 999 : 5; for (auto& v : G) v = (int)g.range(-lim, lim); }   // (products stay exact integers)
    for (int i = 1; i <= n; i++) for (int k = 1; k <= n; k++) { int sum = 0; for (int q = 0; q < r; q++) sum += G[(size_t)(i - 1) * r + q] * G[(size_t)(k - 1) * r + q]; z.m.at(i, k) = sum; }
    for (int i = 1; i <= n; i++) for (int k = i; k <= n; k++) rset(z, i, k, z.m.at(i, k));
    check_slot(j, "singular-fill");
    ST->state("triples", fmt("cholDec/%s/exactly-singular", TN[t]));
    bool refused = false;
    try {
      if (t == T_SYM) { RSym f(*z.sym); f.cholDec(); refused = f.nullity() != 0; }
      else if (t == T_COV) { RCov f(*z.cov); f.cholDec(); }
      else { RBand f(*z.band); f.cholDec(); }
    } catch (const matvec&) { refused = true; }
    if (!refused) {
      std::string rows; for (int i = 1; i <= n; i++) { rows += i > 1 ? "; " : ""; for (int k = 1; k <= n; k++) rows += fmt("%s%d", k > 1 ? " " : "", (int)z.m.at(i, k)); }
      throw Fail{fmt("C15:algebra:%s::cholDec", TN[t]), fmt("an exactly singular %d x %d matrix of rank at most %d (small integers) is accepted as positive definite: [%s]", n, n, r, rows.c_str())};
    }
    ST->add("chol.singular_refused");
    L->line("  chol %s n=%d singular r=%d refused", TN[t], n, r);
    return;
  }
  Slot& s = S[j]; make(s, t, n, n, b);
  spd_values(s.m, g);
  for (int i = 1; i <= n; i++) for (int k = i; k <= n; k++) if (s.m.inband(i, k)) rset(s, i, k, s.m.at(i, k));
  check_slot(j, "spd-fill");
  ST->state("triples", fmt("cholDec/%s/band%s", TN[t], s.m.b == 0 ? "0" : s.m.b == n - 1 ? "full" : "mid"));
  Model rhs; rhs.shape(T_VEC, n, 1, 0); for (int i = 1; i <= n; i++) rhs.at(i, 1) = val(g);
  RVec x(n); for (int i = 1; i <= n; i++) x(i) = rhs.at(i, 1);
  double amax = 0; for (double v : s.m.d) amax = std::max(amax, std::fabs(v));
  std::vector<double> Lm((size_t)n * n, 0), D(n, 1);
  if (t == T_SYM) {
    RSym f(*s.sym); f.cholDec();
    if (f.nullity() != 0) throw Fail{"C15:algebra:SymMat::cholDec", "positive definite matrix reported rank deficient"};
    for (int i = 1; i <= n; i++) for (int k = 1; k <= i; k++) Lm[(i - 1) * n + k - 1] = ((const RSym&)f)(i, k);   // A = L*L'
    f.solve(x);
  } else if (t == T_COV) {
    RCov f(*s.cov); f.cholDec();
    for (int i = 1; i <= n; i++) { D[i - 1] = ((const RCov&)f)(i, i); Lm[(i - 1) * n + i - 1] = 1; for (int k = 1; k < i; k++) Lm[(i - 1) * n + k - 1] = ((const RCov&)f)(i, k); }
    f.solve(x);
  } else {
    RBand f(*s.band); f.cholDec();
    for (int i = 1; i <= n; i++) { D[i - 1] = ((const RBand&)f)(i, i); Lm[(i - 1) * n + i - 1] = 1; for (int k = 1; k < i; k++) Lm[(i - 1) * n + k - 1] = ((const RBand&)f)(i, k); }
    f.solve(x);
  }
  for (int i = 0; i < n; i++) for (int k = 0; k < n; k++) {
    double sum = 0; for (int q = 0; q < n; q++) sum += Lm[i * n + q] * D[q] * Lm[k * n + q];
    if (!(std::fabs(sum - s.m.at(i + 1, k + 1)) <= 1e-9 * (1 + amax * n)))
      throw Fail{fmt("C15:algebra:%s::cholDec", TN[t]), fmt("factor does not reproduce A at (%d,%d): %s vs %s", i + 1, k + 1, hexfloat(sum).c_str(), hexfloat(s.m.at(i + 1, k + 1)).c_str())};
  }
  double xmax = 0; for (int i = 1; i <= n; i++) xmax = std::max(xmax, std::fabs(x(i)));
  for (int i = 1; i <= n; i++) {
    double sum = 0; for (int k = 1; k <= n; k++) sum += s.m.at(i, k) * x(k);
    if (!(std::fabs(sum - rhs.at(i, 1)) <= 1e-9 * (1 + amax * n * xmax)))
      throw Fail{fmt("C15:algebra:%s::solve", TN[t]), fmt("A*x differs from b in row %d: %s vs %s", i, hexfloat(sum).c_str(), hexfloat(rhs.at(i, 1)).c_str())};
  }
  L->line("  chol %s n=%d b=%d x1=%s", TN[t], n, s.m.b, hexfloat(x(1)).c_str());
}

// BandMat beyond cholDec/solve: the band subset of the inverse (also with a wider requested band), the
// tridiagonalisation and the eigenvalues, each against the dense model
void ObjsEngine::op_band(const Step& st)
{
  int n = 1 + (int)(st.arg(0) % MAXD), b = (int)(st.arg(1) % MAXD); if (b > n - 1) b = n - 1;
  int kind = (int)(st.arg(2) % 3);
  Rng g((uint64_t)st.arg(3) * 53 + 11);
  Model A; A.shape(T_BAND, n, n, b); spd_values(A, g);
  RBand M(n, b); for (int i = 1; i <= n; i++) for (int k = i; k <= std::min(n, i + b); k++) M(i, k) = A.at(i, k);
  double amax = 0; for (double v : A.d) amax = std::max(amax, std::fabs(v));
  if (kind == 0) {
    int pbw = b + (int)(st.arg(4) % 3); if (pbw > n - 1) pbw = n - 1; if (pbw < b) pbw = b;
    ST->state("triples", fmt("invBand/BandMat/%s", pbw == b ? "same-band" : "wider-band"));
    Model X; double cond = 0; if (!model_inverse(A, X, cond)) return;
    RBand F(M); F.cholDec(); RBand Z; F.invBand(Z, pbw);
    if (Z.dim() != n || Z.bandWidth() != pbw) throw Fail{"C15:algebra:BandMat::invBand", fmt("result is %d band %d, asked for %d band %d", Z.dim(), Z.bandWidth(), n, pbw)};
    for (int i = 1; i <= n; i++) for (int k = i; k <= std::min(n, i + pbw); k++) {
      double z = ((const RBand&)Z)(i, k);
      if (!(std::fabs(z - X.at(i, k)) <= 1e-9 * (1 + cond)))
        throw Fail{"C15:algebra:BandMat::invBand", fmt("n=%d band=%d requested=%d: Z(%d,%d) = %s, inverse has %s", n, b, pbw, i, k, hexfloat(z).c_str(), hexfloat(X.at(i, k)).c_str())};
    }
    L->line("  invBand n=%d b=%d pbw=%d z11=%s", n, b, pbw, hexfloat(((const RBand&)Z)(1, 1)).c_str());
    return;
  }
  // eigenvalues (kind 1) / tridiagonal form (kind 2): compared through the invariants trace and sum of squares
  // (Frobenius norm), which a similarity transformation keeps
  double tr = 0, fro = 0; for (int i = 1; i <= n; i++) { tr += A.at(i, i); for (int k = 1; k <= n; k++) fro += A.at(i, k) * A.at(i, k); }
  if (kind == 1) {
    ST->state("triples", fmt("eigenVal/BandMat/band%s", b == 0 ? "0" : b == n - 1 ? "full" : "mid"));
    RBand E(M); RVec ev; E.eigenVal(ev);
    if (ev.dim() != n) throw Fail{"C15:algebra:BandMat::eigenVal", "wrong number of eigenvalues"};
    double s1 = 0, s2 = 0, mn = 1e300; for (int i = 1; i <= n; i++) { s1 += ev(i); s2 += ev(i) * ev(i); mn = std::min(mn, ev(i)); }
    double tol = 1e-8 * (1 + amax) * (1 + amax) * n;
    if (!(std::fabs(s1 - tr) <= tol) || !(std::fabs(s2 - fro) <= tol * (1 + amax)) || !(mn > 0))
      throw Fail{"C15:algebra:BandMat::eigenVal", fmt("n=%d band=%d: sum %s (trace %s), sum of squares %s (%s), smallest %s of a positive definite matrix", n, b, hexfloat(s1).c_str(), hexfloat(tr).c_str(), hexfloat(s2).c_str(), hexfloat(fro).c_str(), hexfloat(mn).c_str())};
    L->line("  eigenVal n=%d b=%d sum=%s", n, b, hexfloat(s1).c_str());
  } else {
    ST->state("triples", fmt("triDiag/BandMat/band%s", b == 0 ? "0" : b == n - 1 ? "full" : "mid"));
    RBand T(M); T.triDiag();
    double s1 = 0, s2 = 0;
    for (int i = 1; i <= n; i++) { s1 += ((const RBand&)T)(i, i); s2 += ((const RBand&)T)(i, i) * ((const RBand&)T)(i, i); if (i < n && b >= 1) { double o = ((const RBand&)T)(i, i + 1); s2 += 2 * o * o; } }
    double tol = 1e-8 * (1 + amax) * (1 + amax) * n;
    if (!(std::fabs(s1 - tr) <= tol) || !(std::fabs(s2 - fro) <= tol * (1 + amax)))
      throw Fail{"C15:algebra:BandMat::triDiag", fmt("n=%d band=%d: trace %s vs %s, Frobenius %s vs %s", n, b, hexfloat(s1).c_str(), hexfloat(tr).c_str(), hexfloat(s2).c_str(), hexfloat(fro).c_str())};
    L->line("  triDiag n=%d b=%d tr=%s", n, b, hexfloat(s1).c_str());
  }
}

// The Gram-Schmidt class of gso.h (a testing tool by its own words, and the reference of the GSO algorithm): the block
// matrix (A1 -b; I 0) of a least-squares problem with planted rank, built from small integers.  After gso1 / gso2 the
// defect is the planted one, the last column holds residuals r = A1*x - b and the solution x, the residuals satisfy the
// normal equations, and x is orthogonal to the null space of A1 (minimum norm over all unknowns).
void ObjsEngine::op_gso(const Step& st)
{
  int n = 1 + (int)(st.arg(0) % 6), m = n + (int)(st.arg(1) % 4), rank = 1 + (int)(st.arg(2) % n);
  if (st.arg(2) % 3 != 0) rank = n;
  Rng g((uint64_t)st.arg(3) * 41 + 3);
  std::vector<double> P((size_t)m * rank), Q((size_t)rank * n);
  for (int i = 0; i < m; i++) for (int q = 0; q < rank; q++) P[(size_t)i * rank + q] = i == q ? 1.0 : i > q ? (double)g.range(-2, 2) : 0.0;
  for (int q = 0; q < rank; q++) for (int k = 0; k < n; k++) Q[(size_t)q * n + k] = k == q ? 1.0 : k > q ? (double)g.range(-2, 2) : 0.0;
  std::vector<double> A1((size_t)m * n), b(m);
  for (int i = 0; i < m; i++) { for (int k = 0; k < n; k++) { double s = 0; for (int q = 0; q < rank; q++) s += P[(size_t)i * rank + q] * Q[(size_t)q * n + k]; A1[(size_t)i * n + k] = s; } b[i] = (double)g.range(-8, 8) / 2.0; }
  double amax = 1; for (double v : A1) amax = std::max(amax, std::fabs(v));
  ST->state("triples", fmt("gso/Mat/%s", rank == n ? "full-rank" : "rank-deficient"));
  RMat A(m + n, n + 1);
  for (int i = 1; i <= m; i++) { for (int k = 1; k <= n; k++) A(i, k) = A1[(size_t)(i - 1) * n + k - 1]; A(i, n + 1) = -b[i - 1]; }
  for (int i = 1; i <= n; i++) for (int k = 1; k <= n + 1; k++) A(m + i, k) = i == k ? 1 : 0;
  int defect = 0, nd = 0;
  try {
    GNU_gama::GSO<double, int, matvec> gso(A, m, n);
    gso.min_x(); gso.gso1(); gso.gso2();
    defect = gso.defect(); for (int k = 1; k <= n; k++) if (gso.lindep(k)) nd++;
  } catch (const matvec& e) { throw Fail{"C15:algebra:GSO", fmt("exception %d for a %d x %d matrix of rank %d", e.error(), m, n, rank)}; }
  if (defect != n - rank || nd != n - rank) throw Fail{"C15:algebra:GSO", fmt("%d x %d matrix of planted rank %d: defect %d, %d columns flagged as dependent", m, n, rank, defect, nd)};
  std::vector<double> x(n), r(m); for (int k = 1; k <= n; k++) x[k - 1] = A(m + k, n + 1); for (int i = 1; i <= m; i++) r[i - 1] = A(i, n + 1);
  double xmax = 1; for (double v : x) xmax = std::max(xmax, std::fabs(v));
  double tol = 1e-8 * amax * amax * xmax * (m + n);
  for (int i = 0; i < m; i++) { double sres = -b[i]; for (int k = 0; k < n; k++) sres += A1[(size_t)i * n + k] * x[k]; if (!(std::fabs(sres - r[i]) <= tol)) throw Fail{"C15:algebra:GSO", fmt("residual %d is %s, A1*x - b gives %s", i + 1, hexfloat(r[i]).c_str(), hexfloat(sres).c_str())}; }
  for (int k = 0; k < n; k++) { double sn = 0; for (int i = 0; i < m; i++) sn += A1[(size_t)i * n + k] * r[i]; if (!(std::fabs(sn) <= tol)) throw Fail{"C15:algebra:GSO", fmt("normal equation %d is not satisfied: trans(A1)*r = %s", k + 1, hexfloat(sn).c_str())}; }
  // null space of A1 = null space of Q = (U | R), U unit upper triangular: v_k = (-inv(U)*R*e_k ; e_k)
  for (int k = rank; k < n; k++) {
    std::vector<long double> v(n, 0); v[k] = 1;
    for (int q = rank - 1; q >= 0; q--) { long double sq = Q[(size_t)q * n + k]; for (int c = q + 1; c < rank; c++) sq += Q[(size_t)q * n + c] * v[c]; v[q] = -sq; }
    long double dot = 0, vmax = 1; for (int c = 0; c < n; c++) { dot += v[c] * x[c]; vmax = std::max(vmax, fabsl(v[c])); }
    if (!(fabsl(dot) <= tol * vmax)) throw Fail{"C15:algebra:GSO", fmt("the solution is not of minimum norm: its product with null vector %d is %s", k - rank + 1, hexfloat((double)dot).c_str())};
  }
  L->line("  gso m=%d n=%d rank=%d x1=%s", m, n, rank, hexfloat(x[0]).c_str());
}

void ObjsEngine::op_svd(const Step& st)
{
  // a fresh m x n matrix (m >= n) of planted rank built from small integers, so that rank is numerically unambiguous
  int j = (int)(st.arg(0) % NSLOT);
  int n = 1 + (int)(st.arg(1) % 5), m = n + (int)(st.arg(2) % 3), rank = 1 + (int)(st.arg(3) % n);
  if (st.arg(3) % 3 != 0) rank = n;
  Rng g((uint64_t)st.arg(4) * 31 + 9);
  // one decomposition in three takes ANY tiny small-integer matrix (up to 3 x 3, entries -1..2): zero rows and columns
  // inside the matrix, repeated rows, exact rank deficiency of every kind; its rank is computed exactly (Bareiss)
  bool tiny = (st.arg(3) / 3) % 3 == 1;
  if (tiny) { n = 1 + (int)(st.arg(1) % 3); m = n + (int)(st.arg(2) % (4 - n)); }
  Model A; A.shape(T_MAT, m, n, 0);
  if (tiny) {
    std::vector<long long> Z((size_t)m * n);
    for (int i = 0; i < m; i++) for (int k = 0; k < n; k++) { long long v = (long long)g.range(-1, 2); Z[(size_t)i * n + k] = v; A.at(i + 1, k + 1) = (double)v; }
    // fraction-free elimination: exact rank of an integer matrix
    rank = 0; long long prev = 1; std::vector<long long> B = Z; int row = 0;
    for (int col = 0; col < n && row < m; col++) {
      int piv = -1; for (int i = row; i < m; i++) if (B[(size_t)i * n + col] != 0) { piv = i; break; }
      if (piv < 0) continue;
      if (piv != row) for (int k = 0; k < n; k++) std::swap(B[(size_t)piv * n + k], B[(size_t)row * n + k]);
      for (int i = row + 1; i < m; i++) for (int k = col + 1; k < n; k++)
        B[(size_t)i * n + k] = (B[(size_t)i * n + k] * B[(size_t)row * n + col] - B[(size_t)i * n + col] * B[(size_t)row * n + k]) / prev;
      for (int i = row + 1; i < m; i++) B[(size_t)i * n + col] = 0;
      prev = B[(size_t)row * n + col]; row++; rank++;
    }
  } else {
    // P is unit lower trapezoidal (full column rank), Q unit upper trapezoidal (full row rank): rank(P*Q) is exactly `rank`
    std::vector<double> P((size_t)m * rank), Q((size_t)rank * n);
    for (int i = 0; i < m; i++) for (int q = 0; q < rank; q++) P[(size_t)i * rank + q] = i == q ? 1.0 : i > q ? (double)g.range(-2, 2) : 0.0;
    for (int q = 0; q < rank; q++) for (int k = 0; k < n; k++) Q[(size_t)q * n + k] = k == q ? 1.0 : k > q ? (double)g.range(-2, 2) : 0.0;
    for (int i = 0; i < m; i++) for (int k = 0; k < n; k++) { double s = 0; for (int q = 0; q < rank; q++) s += P[(size_t)i * rank + q] * Q[(size_t)q * n + k]; A.at(i + 1, k + 1) = s; }
  }
  Slot& s = S[j]; make(s, T_MAT, m, n, 0); s.m = A; s.m.t = T_MAT;
  for (int i = 1; i <= m; i++) for (int k = 1; k <= n; k++) rset(s, i, k, A.at(i, k));
  double amax = 0; for (double v : A.d) amax = std::max(amax, std::fabs(v));
  ST->state("triples", fmt("svd/Mat/%s%s", tiny ? "tiny-integer-" : "", rank == n ? "full-rank" : rank == 0 ? "zero" : "rank-deficient"));
  GNU_gama::SVD<double, int, matvec> svd(*s.mat);
  // every real matrix has a singular value decomposition: an exception here ("no convergence") is a wrong answer
  try { svd.decompose(); } catch (const matvec& e) { throw Fail{"C15:algebra:SVD", fmt("decompose() raised exception %d for a %d x %d matrix of rank %d", e.error(), m, n, rank)}; }
  const RMat& U = svd.SVD_U(); const RVec& W = svd.SVD_W(); const RMat& V = svd.SVD_V();
  if (U.rows() != m || U.cols() != n || W.dim() != n || V.rows() != n || V.cols() != n)
    throw Fail{"C15:algebra:SVD", "factor dimensions are wrong"};
  double tol = 1e-9 * (1 + amax) * (m + n);
  for (int i = 1; i <= m; i++) for (int k = 1; k <= n; k++) {
    double sum = 0; for (int q = 1; q <= n; q++) sum += U(i, q) * W(q) * V(k, q);
    if (!(std::fabs(sum - A.at(i, k)) <= tol)) throw Fail{"C15:algebra:SVD", fmt("U*W*V' differs from A at (%d,%d): %s vs %s", i, k, hexfloat(sum).c_str(), hexfloat(A.at(i, k)).c_str())};
  }
  for (int a = 1; a <= n; a++) for (int c = 1; c <= n; c++) {
    double sv = 0; for (int q = 1; q <= n; q++) sv += V(q, a) * V(q, c);
    if (!(std::fabs(sv - (a == c)) <= 1e-9)) throw Fail{"C15:algebra:SVD", fmt("V is not orthonormal at (%d,%d): %s", a, c, hexfloat(sv).c_str())};
    if (rank == n) {
      double su = 0; for (int q = 1; q <= m; q++) su += U(q, a) * U(q, c);
      if (!(std::fabs(su - (a == c)) <= 1e-9)) throw Fail{"C15:algebra:SVD", fmt("U is not orthonormal at (%d,%d): %s", a, c, hexfloat(su).c_str())};
    }
  }
  if (svd.nullity() != n - rank) throw Fail{"C15:algebra:SVD", fmt("nullity %d, planted rank deficiency %d", svd.nullity(), n - rank)};
  // Moore-Penrose conditions for pinv(A)
  RMat Pm; try { Pm = GNU_gama::pinv(*s.mat); } catch (const matvec& e) { throw Fail{"C15:algebra:pinv", fmt("pinv() raised exception %d for a %d x %d matrix of rank %d", e.error(), m, n, rank)}; }
  if (Pm.rows() != n || Pm.cols() != m) throw Fail{"C15:algebra:pinv", "dimensions of the pseudo-inverse are wrong"};
  Model P; P.shape(T_MAT, n, m, 0); for (int i = 1; i <= n; i++) for (int k = 1; k <= m; k++) P.at(i, k) = Pm(i, k);
  Model AP, PA, APA, PAP; double sc, pmax = 0; for (double v : P.d) pmax = std::max(pmax, std::fabs(v));
  mm(A, P, AP, sc); mm(P, A, PA, sc); mm(AP, A, APA, sc); mm(PA, P, PAP, sc);
  double mt = 1e-8 * (1 + amax) * (1 + pmax) * (1 + amax) * (m + n);
  for (int i = 1; i <= m; i++) for (int k = 1; k <= n; k++) if (!(std::fabs(APA.at(i, k) - A.at(i, k)) <= mt)) throw Fail{"C15:algebra:pinv", fmt("A*A+*A != A at (%d,%d)", i, k)};
  for (int i = 1; i <= n; i++) for (int k = 1; k <= m; k++) if (!(std::fabs(PAP.at(i, k) - P.at(i, k)) <= mt)) throw Fail{"C15:algebra:pinv", fmt("A+*A*A+ != A+ at (%d,%d)", i, k)};
  for (int i = 1; i <= m; i++) for (int k = 1; k <= m; k++) if (!(std::fabs(AP.at(i, k) - AP.at(k, i)) <= mt)) throw Fail{"C15:algebra:pinv", fmt("A*A+ not symmetric at (%d,%d)", i, k)};
  for (int i = 1; i <= n; i++) for (int k = 1; k <= n; k++) if (!(std::fabs(PA.at(i, k) - PA.at(k, i)) <= mt)) throw Fail{"C15:algebra:pinv", fmt("A+*A not symmetric at (%d,%d)", i, k)};
  L->line("  svd m=%d n=%d rank=%d w1=%s", m, n, rank, hexfloat(W(1)).c_str());
  // pinv of a WIDE matrix (fewer rows than columns): the transposed problem, same four conditions
  if (st.arg(2) % 2 == 1 && m > n) {
    Model At; At.shape(T_MAT, n, m, 0); for (int i = 1; i <= m; i++) for (int k = 1; k <= n; k++) At.at(k, i) = A.at(i, k);
    RMat Aw(n, m); for (int i = 1; i <= n; i++) for (int k = 1; k <= m; k++) Aw(i, k) = At.at(i, k);
    RMat Pw = GNU_gama::pinv(Aw);
    if (Pw.rows() != m || Pw.cols() != n) throw Fail{"C15:algebra:pinv", "dimensions of the pseudo-inverse of a wide matrix are wrong"};
    Model Q; Q.shape(T_MAT, m, n, 0); for (int i = 1; i <= m; i++) for (int k = 1; k <= n; k++) Q.at(i, k) = Pw(i, k);
    Model AQ, QA, AQA, QAQ; double s2, qmax = 0; for (double v : Q.d) qmax = std::max(qmax, std::fabs(v));
    mm(At, Q, AQ, s2); mm(Q, At, QA, s2); mm(AQ, At, AQA, s2); mm(QA, Q, QAQ, s2);
    double wt = 1e-8 * (1 + amax) * (1 + qmax) * (1 + amax) * (m + n);
    for (int i = 1; i <= n; i++) for (int k = 1; k <= m; k++) if (!(std::fabs(AQA.at(i, k) - At.at(i, k)) <= wt)) throw Fail{"C15:algebra:pinv", fmt("wide %dx%d: A*A+*A != A at (%d,%d)", n, m, i, k)};
    for (int i = 1; i <= m; i++) for (int k = 1; k <= n; k++) if (!(std::fabs(QAQ.at(i, k) - Q.at(i, k)) <= wt)) throw Fail{"C15:algebra:pinv", fmt("wide %dx%d: A+*A*A+ != A+ at (%d,%d)", n, m, i, k)};
    for (int i = 1; i <= n; i++) for (int k = 1; k <= n; k++) if (!(std::fabs(AQ.at(i, k) - AQ.at(k, i)) <= wt)) throw Fail{"C15:algebra:pinv", fmt("wide %dx%d: A*A+ not symmetric", n, m)};
    for (int i = 1; i <= m; i++) for (int k = 1; k <= m; k++) if (!(std::fabs(QA.at(i, k) - QA.at(k, i)) <= wt)) throw Fail{"C15:algebra:pinv", fmt("wide %dx%d: A+*A not symmetric", n, m)};
    ST->state("triples", fmt("pinv/Mat/wide-%s", rank == n ? "full-rank" : "rank-deficient"));
  }
}

void ObjsEngine::op_conv(const Step& st)
{
  int j = (int)(st.arg(0) % NSLOT), kind = (int)(st.arg(2) % 5);
  if (kind < 3) {
    int ia = usable_of(st.arg(1), {T_SYM}); if (ia < 0) return; const Slot& A = S[ia]; int n = A.m.r;
    Model R; R.shape(T_MAT, n, n, 0);
    for (int i = 1; i <= n; i++) for (int k = 1; k <= n; k++)
      R.at(i, k) = kind == 0 ? A.m.at(i, k) : kind == 1 ? (i >= k ? A.m.at(i, k) : 0.0) : (i <= k ? A.m.at(i, k) : 0.0);
    ST->state("triples", fmt("%s/SymMat/-", kind == 0 ? "Square" : kind == 1 ? "Lower" : "Upper"));
    RMat r = kind == 0 ? GNU_gama::Square(*A.sym) : kind == 1 ? GNU_gama::Lower(*A.sym) : GNU_gama::Upper(*A.sym);
    put_mat(j, std::move(r), R, st.arg(3));
  } else {
    int ia = usable_of(st.arg(1), {T_MAT}); if (ia < 0) return; const Slot& A = S[ia];
    bool square = A.m.r == A.m.c; int n = A.m.r; bool threw = false;
    ST->state("triples", fmt("%s/Mat/%s", kind == 3 ? "Lower" : "Upper", square ? "square" : "non-square"));
    try {
      RSym r = kind == 3 ? GNU_gama::Lower(*A.mat) : GNU_gama::Upper(*A.mat);
      Model R; R.shape(T_SYM, n, n, 0);
      if (square) for (int i = 1; i <= n; i++) for (int k = 1; k <= i; k++) R.at(i, k) = R.at(k, i) = kind == 3 ? A.m.at(i, k) : A.m.at(k, i);
      put_sym(j, std::move(r), R, st.arg(3));
    } catch (const matvec&) { threw = true; }
    expect_throw(threw, !square, "Lower/Upper(Mat)");
  }
}

void ObjsEngine::op_io(const Step& st)
{
  // operator<< into a string, operator>> back from a chunked SimStreamBuf into another object
  int j = (int)(st.arg(0) % NSLOT), ia = usable_of(st.arg(1), {T_VEC, T_MAT, T_SYM, T_COV, T_BAND, T_TMAT}); if (ia < 0) return;
  if (j == ia) j = (j + 1) % NSLOT;
  const Slot& A = S[ia];
  std::ostringstream out; out.precision(17);
  // a field width, too: none, narrower than the text of an element (the stream never truncates), wider
  { static const int FW[] = {0, 0, 3, 10, 26}; out.width(FW[(st.arg(2) / 7) % 5]); }
  switch (A.m.t) {
    case T_VEC: out << *A.vec; break; case T_MAT: out << *A.mat; break; case T_TMAT: out << *A.tmat; break;
    case T_SYM: out << *A.sym; break; case T_COV: out << *A.cov; break; case T_BAND: out << *A.band; break;
  }
  std::string text = out.str();
  Rng g((uint64_t)st.arg(2) + 3); std::vector<size_t> lens; size_t left = text.size();
  while (left > 0 && lens.size() < 64) { size_t l = (size_t)g.range(0, 9); if (l > left) l = left; lens.push_back(l); left -= l; }
  SimStreamBuf sb; sb.load(text, lens, false); std::istream in(&sb);
  Slot& d = S[j];
  // the target is an existing object of the same type (any size) when there is one, else a default constructed one
  int t = A.m.t;
  if (!(d.live && d.m.t == t)) { d.drop(); d.live = true; d.m.shape(t, 0, is_vec(t) ? 1 : 0, 0);
    switch (t) { case T_VEC: d.vec.reset(new RVec); break; case T_MAT: d.mat.reset(new RMat); break; case T_TMAT: d.tmat.reset(new RTMat); break;
                 case T_SYM: d.sym.reset(new RSym); break; case T_COV: d.cov.reset(new RCov); break; case T_BAND: d.band.reset(new RBand); break; } }
  relation("stream-read", d, A, false);
  switch (t) {
    case T_VEC: in >> *d.vec; break; case T_MAT: in >> *d.mat; break; case T_TMAT: in >> *d.tmat; break;
    case T_SYM: in >> *d.sym; break; case T_COV: in >> *d.cov; break; case T_BAND: in >> *d.band; break;
  }
  d.m = A.m; d.m.moved = false;
  ST->add("io.bytes", (long long)text.size()); ST->add("io.chunks", (long long)lens.size());
}

void ObjsEngine::op_norm(const Step& st)
{
  int ia = usable_of(st.arg(0), {T_VEC, T_TVEC}); if (ia < 0) return; const Slot& A = S[ia];
  const RVBase& v = *A.vbase();
  double l1 = 0, l2 = 0, li = 0; for (double x : A.m.d) { l1 += std::fabs(x); l2 += x * x; li = std::max(li, std::fabs(x)); }
  double a = v.norm_L1(), b = v.norm_L2(), c = v.norm_Linf(), d = v.dot(v);
  if (!(std::fabs(a - l1) <= tolscale(l1)) || !(std::fabs(b - std::sqrt(l2)) <= tolscale(l2)) || !(std::fabs(c - li) <= tolscale(li)) || !(std::fabs(d - l2) <= tolscale(l2)))
    throw Fail{"C15:algebra:norms", "norm_L1/L2/Linf/dot differ from their definition"};
  ST->state("triples", fmt("norms/%s/%s", TN[A.m.t], A.m.d.empty() ? "empty" : "nonempty"));
  L->line("  norms %s %s %s", hexfloat(a).c_str(), hexfloat(b).c_str(), hexfloat(c).c_str());
}

void ObjsEngine::op_sort(const Step& st)
{
  int ia = usable_of(st.arg(0), {T_VEC}); if (ia < 0) return; Slot& A = S[ia];
  GNU_gama::sort(*A.vec); std::sort(A.m.d.begin(), A.m.d.end());
  ST->state("triples", fmt("sort/Vec/%s", A.m.d.empty() ? "empty" : "nonempty"));
}

void ObjsEngine::step(const Step& st, int idx)
{
  cur = idx;
  const std::string& o = st.op;
  if (o == "new") op_new(st); else if (o == "del") { Slot& s = S[st.arg(0) % NSLOT]; if (s.live) ST->state("triples", fmt("destroy/%s/%s", TN[s.m.t], s.m.moved ? "moved-from" : "live")); s.drop(); }
  else if (o == "cctor") op_cctor(st); else if (o == "casg") op_casg(st); else if (o == "mctor") op_mctor(st); else if (o == "masg") op_masg(st);
  else if (o == "reset0") op_reset0(st); else if (o == "reset") op_reset(st); else if (o == "set") op_set(st); else if (o == "setall") op_setall(st);
  else if (o == "scale") op_scale(st); else if (o == "add") op_addsub(st, true); else if (o == "sub") op_addsub(st, false);
  else if (o == "mul") op_mul(st); else if (o == "smul") op_smul(st); else if (o == "trans") op_trans(st); else if (o == "inv") op_inv(st);
  else if (o == "chol") op_chol(st); else if (o == "band") op_band(st); else if (o == "svd") op_svd(st); else if (o == "conv") op_conv(st); else if (o == "io") op_io(st);
  else if (o == "norm") op_norm(st); else if (o == "sort") op_sort(st); else if (o == "gso") op_gso(st);
}

Verdict ObjsEngine::execute(const Plan& plan, EventLog& log, Stats& st)
{
  L = &log; ST = &st;
  for (auto& s : S) s.drop();
  Verdict v;
  int i = 0;
  try {
    for (; i < (int)plan.steps.size(); i++) {
      const Step& s = plan.steps[i];
      bool threw_lib = false;
      try { step(s, i); }
      catch (const matvec& e) {
        // an exception the library raised by itself outside an expectation (e.g. singular invert): objects stay in the pool and in use
        threw_lib = true; st.add("fault.library_exception");
        log.line("  matvec-exception %d", e.error());
      }
      check_all(s.op.c_str());
      log.line("%d %s%s %016llx", i, s.op.c_str(), threw_lib ? "!" : "", (unsigned long long)pool_hash());
      st.shape += s.op; st.shape += threw_lib ? "!" : ","; if (S[s.arg(0) % NSLOT].live) { st.shape += TN[S[s.arg(0) % NSLOT].m.t][0]; st.shape += (char)('0' + std::min<size_t>(9, S[s.arg(0) % NSLOT].m.d.size() ? 1 + S[s.arg(0) % NSLOT].m.d.size() / 8 : 0)); }
      st.add("ops");
    }
  } catch (const Fail& f) {
    v = Verdict::fail(f.cls, i, f.note);
  }
  for (auto& s : S) s.drop();
  st.nontrivial = plan.steps.size() >= 3;
  st.add("fill." + std::to_string(plan.geti("fill", 0)));
  return v;
}

Plan ObjsEngine::generate(uint64_t seed, uint64_t, const std::string&)
{
  Rng g(seed);
  Plan p;
  static const int FILLS[] = {FILL_00, FILL_FF, FILL_A5, FILL_PRNG};
  p.seti("fill", FILLS[g.below(4)]);
  p.seti("refill", g.chance(1, 4) ? 1 : 0);
  int n = (int)g.range(10, 60);
  // swarm: each run enables a random subset of operation kinds, with random weights
  struct K { const char* op; int nargs; int w; };
  std::vector<K> kinds = {{"new", 6, 6}, {"del", 1, 1}, {"cctor", 2, 4}, {"casg", 2, 6}, {"mctor", 2, 3}, {"masg", 2, 4}, {"reset0", 1, 2}, {"reset", 6, 5},
                          {"set", 4, 3}, {"setall", 3, 2}, {"scale", 3, 2}, {"add", 6, 4}, {"sub", 6, 3}, {"mul", 6, 6}, {"smul", 5, 2}, {"trans", 4, 3},
                          {"inv", 4, 2}, {"chol", 5, 2}, {"band", 5, 2}, {"svd", 5, 1}, {"conv", 4, 2}, {"io", 3, 2}, {"norm", 1, 1}, {"sort", 1, 1}, {"gso", 5, 1}};
  std::vector<K> on;
  for (auto& k : kinds) if (std::string(k.op) == "new" || g.chance(3, 4)) { K c = k; c.w = 1 + (int)g.below(2 * k.w); on.push_back(c); }
  int tw = 0; for (auto& k : on) tw += k.w;
  // a few objects to start with
  int n0 = (int)g.range(2, 5);
  for (int i = 0; i < n + n0; i++) {
    const K* k = &on[0];
    if (i >= n0) { int r = (int)g.below(tw); for (auto& c : on) { if (r < c.w) { k = &c; break; } r -= c.w; } }
    Step s; s.op = k->op;
    for (int a = 0; a < k->nargs; a++) s.a.push_back((long long)g.below(1000));
    if (s.op == "new") s.a[0] = i < n0 ? i : s.a[0];
    p.steps.push_back(s);
  }
  return p;
}

std::vector<Plan> ObjsEngine::simplify(const Plan& p)
{
  std::vector<Plan> out;
  if (p.geti("refill", 0)) { Plan c = p; c.seti("refill", 0); out.push_back(c); }
  return out;
}

} // namespace

int main(int argc, char** argv)
{
  ObjsEngine e;
  return sim::driver_main(argc, argv, e);
}

// ProcEmu: the process boundary of the simulation (DESIGN.md 2.2, Appendix B).
//
// src/gama-local.cpp and src/gama-g3.cpp are compiled UNCHANGED and their `main`
// symbol renamed by objcopy; run() is an emulated process start: fresh stream
// buffers on cin/cout/cerr, reset of the process-wide state a new process would
// have, the simulated byte transport on stdin, memfd-backed files.
#ifndef VERIF_PROCEMU_H
#define VERIF_PROCEMU_H

#include "sim/sim.h"
#include <gnu_gama/local/xmlerror.h>
#include <gnu_gama/local/observation.h>
#include <gnu_gama/local/language.h>

#include <iostream>
#include <sstream>
#include <sys/mman.h>
#include <unistd.h>
#include <fcntl.h>

extern "C" int gama_local_main(int argc, char** argv);
extern GNU_gama::local::XMLerror xmlerr;      // global of src/gama-local.cpp

namespace procemu {

struct MemFile {
  int fd = -1; std::string path;
  void create(const std::string& content = "")
  {
    fd = memfd_create("simfs", 0);
    path = sim::fmt("/proc/self/fd/%d", fd);
    if (!content.empty()) { size_t off = 0; while (off < content.size()) { ssize_t w = ::write(fd, content.data() + off, content.size() - off); if (w <= 0) break; off += (size_t)w; } lseek(fd, 0, SEEK_SET); }
  }
  std::string read_all()
  {
    std::string s; if (fd < 0) return s;
    off_t n = lseek(fd, 0, SEEK_END); lseek(fd, 0, SEEK_SET);
    s.resize((size_t)std::max<off_t>(n, 0)); size_t off = 0;
    while (off < s.size()) { ssize_t r = ::read(fd, &s[off], s.size() - off); if (r <= 0) break; off += (size_t)r; }
    s.resize(off); return s;
  }
  void close_() { if (fd >= 0) ::close(fd); fd = -1; }
};

struct Result {
  int exit_code = 0;
  std::string out, err;
  std::vector<std::string> files;          // content of @F0, @F1, ... after the run
  bool escaped = false; std::string escaped_what;
  // transport observations
  bool used_stdin = false, stream_ended = false; long reads_after_end = 0, underflows = 0; size_t delivered = 0;
};

// args: argv[1..]; "@Fk" is replaced by the path of the k-th memfd output file, "@IN" by a memfd holding `input`,
// "@X" by a path that cannot be opened, "@FULL" by /dev/full.
// When the arguments contain "-" the input is delivered on the simulated std::cin with the given chunk plan.
inline Result run_gama_local(const std::vector<std::string>& args_in, const std::string& input,
                             const std::vector<size_t>& chunk_lens, bool error_at_end)
{
  Result R;
  std::vector<MemFile> files; MemFile infile;
  std::vector<std::string> args = args_in;
  for (auto& a : args) {
    if (a.size() >= 3 && a[0] == '@' && a[1] == 'F' && a != "@FULL") { size_t k = (size_t)atoi(a.c_str() + 2); while (files.size() <= k) { files.emplace_back(); files.back().create(); } a = files[k].path; }
    else if (a == "@X") a = "/nonexistent-verif-dir/out";        // file-layer fault: the output cannot be opened
    else if (a == "@FULL") a = "/dev/full";                       // file-layer fault: every write fails (disk full)
    else if (a == "@IN") { if (infile.fd < 0) infile.create(input); a = infile.path; }
    else if (a == "-") R.used_stdin = true;
  }
  std::vector<char*> argv; std::string prog = "gama-local"; argv.push_back(&prog[0]);
  for (auto& a : args) argv.push_back(&a[0]);
  argv.push_back(nullptr);

  // ---- what a new process starts with ----
  xmlerr = GNU_gama::local::XMLerror();
  GNU_gama::local::Observation::gons = true;
  GNU_gama::local::set_gama_language(GNU_gama::local::en);
  sim::SimStreamBuf inbuf; inbuf.load(input, chunk_lens, error_at_end);
  std::stringbuf outbuf, errbuf;
  std::streambuf *oin = std::cin.rdbuf(&inbuf), *oout = std::cout.rdbuf(&outbuf), *oerr = std::cerr.rdbuf(&errbuf);
  std::ios saved_out(nullptr), saved_err(nullptr); saved_out.copyfmt(std::cout); saved_err.copyfmt(std::cerr);
  std::cin.clear(); std::cout.clear(); std::cerr.clear();
  std::cin.exceptions(std::ios::goodbit);

  try { R.exit_code = gama_local_main((int)argv.size() - 1, argv.data()); }
  catch (const std::exception& e) { R.escaped = true; R.escaped_what = e.what(); }
  catch (...) { R.escaped = true; R.escaped_what = "unknown"; }

  std::cout.flush(); std::cerr.flush();
  std::cin.rdbuf(oin); std::cout.rdbuf(oout); std::cerr.rdbuf(oerr);
  std::cout.copyfmt(saved_out); std::cerr.copyfmt(saved_err);
  std::cin.clear(); std::cout.clear(); std::cerr.clear();
  R.out = outbuf.str(); R.err = errbuf.str();
  R.stream_ended = inbuf.ended(); R.reads_after_end = inbuf.reads_after_end(); R.underflows = inbuf.underflows(); R.delivered = inbuf.delivered();
  for (auto& f : files) { R.files.push_back(f.read_all()); f.close_(); }
  infile.close_();
  return R;
}

} // namespace procemu
#endif

// sim_restart — C13: the exported input reproduces the adjustment and is a fixed
// point (DESIGN.md section 6).
//
// --export is a persistence operation: the only thing that survives from one
// process to the next is the document it wrote.  A history is up to four emulated
// gama-local processes: adjust + export, then three times re-read the exported
// file (through a seeded chunk plan on the simulated std::cin), adjust, export.
#include "sim/sim.h"
#include "engines/gama_net.h"
#include "engines/procemu.h"
#include "engines/xmlscan.h"
#include "engines/io_events.h"
#include <map>

using namespace sim;

namespace {

std::vector<gnet::Doc> g_docs;
void load_all()
{
  if (!g_docs.empty()) return;
  GNU_gama::local::set_gama_language(GNU_gama::local::en);
  g_docs = gnet::load_dir(gnet::corpus_root() + "/gkf", ".gkf", 12288);
}

// ------------------------------------------------------------ flattening -----
// The adjustment result is read by this small flattener, not by Gama's own result reader: a defect there is C12's
// territory and must not raise a C13 alarm.  Path -> list of text values, in document order.
struct Flat { std::vector<std::pair<std::string, std::string>> items; };

Flat flatten(const std::string& xml)
{
  Flat f; xmlscan::Scan S = xmlscan::scan(xml);
  std::vector<std::string> path;
  for (size_t t = 0; t < S.tags.size(); t++) {
    const xmlscan::Tag& T = S.tags[t];
    if (T.end) { if (!path.empty()) path.pop_back(); continue; }
    std::string p; for (auto& s : path) p += s + "/"; p += T.name;
    for (auto& a : T.attrs) f.items.emplace_back(p + "@" + xml.substr(a.nb, a.ne - a.nb), xml.substr(a.vb, a.ve - a.vb));
    if (T.empty) { f.items.emplace_back(p, "<empty/>"); continue; }
    // text up to the next tag
    size_t e = t + 1 < S.tags.size() ? S.tags[t + 1].b : xml.size();
    std::string text = xml.substr(T.e, e - T.e);
    size_t b0 = text.find_first_not_of(" \t\r\n"), e0 = text.find_last_not_of(" \t\r\n");
    if (b0 != std::string::npos && S.ctx[T.e + b0] != xmlscan::COMMENT) f.items.emplace_back(p, text.substr(b0, e0 - b0 + 1));
    path.push_back(T.name);
  }
  return f;
}

bool under(const std::string& path, const char* what) { return path.find(what) != std::string::npos; }

// Which parts of the result must repeat from round to round, and how closely.  Tolerances are stated per kind of
// quantity; they were calibrated on the corpus (three rounds, four algorithms) and sit well above what the unchanged
// tree shows and far below what losing an attribute or a few digits causes.
// Observations with instrument / target heights are reduced with the current approximate coordinates, and gama-local
// stops refining a reduction when it changes by less than 0.1 cc (zenith angles) or 0.001 mm (slope distances): see
// refine_obsdh_reductions().  A run that starts from the adjusted coordinates recomputes those reductions exactly, so
// with such observations "the same adjustment" holds to the program's own stopping rule only (0.1 cc at a kilometre
// is 0.16 mm), and one more iteration may be reported.
bool g_has_dh = false;

bool compare_results(const std::string& a, const std::string& b, std::string& why)
{
  const double coord_tol = g_has_dh ? 5e-4 : 2e-5;
  Flat fa = flatten(a), fb = flatten(b);
  auto keep = [](const Flat& f) {
    std::vector<std::pair<std::string, std::string>> v;
    for (auto& it : f.items) {
      const std::string& p = it.first;
      if (under(p, "coordinates/approximate")) continue;          // approximate coordinates are supposed to change
      if (under(p, "linearization-iterations")) continue;         // clause 4 looks at it separately
      if (under(p, "orientation-shifts") && under(p, "/approx")) continue;
      if (under(p, "network-general-parameters")) continue;
      if (under(p, "description")) continue;
      if (under(p, "@extern") || under(p, "/extern")) continue;   // see survey_view()
      if (under(p, "/err-obs") || under(p, "/err-adj")) continue;           // optional estimates, written only above a threshold of f: they come and go with the last digit
      if (under(p, "std-error-ellipses") && under(p, "/alpha")) continue;   // orientation of a (nearly) circular ellipse is arbitrary; the covariances are compared
      v.push_back(it);
    }
    return v;
  };
  auto va = keep(fa), vb = keep(fb);
  if (va.size() != vb.size()) {
    size_t i = 0; while (i < va.size() && i < vb.size() && va[i].first == vb[i].first) i++;
    why = fmt("results have %zu vs %zu items; first structural difference at item %zu: %s vs %s", va.size(), vb.size(), i, i < va.size() ? va[i].first.c_str() : "(end)", i < vb.size() ? vb[i].first.c_str() : "(end)");
    return false;
  }
  // a perfect fit (sum of squares at round-off level, 1e-50): residuals are noise and a standardized residual is noise
  // divided by noise - not compared
  bool perfect_fit = false;
  for (size_t i = 0; i < va.size(); i++) if (under(va[i].first, "sum-of-squares")) { double x = 1, y = 1; if (gnet::parse_num(va[i].second, x) && gnet::parse_num(vb[i].second, y) && std::fabs(x) < 1e-20 && std::fabs(y) < 1e-20) perfect_fit = true; }
  for (size_t i = 0; i < va.size(); i++) {
    if (va[i].first != vb[i].first) { why = "element structure differs: " + va[i].first + " vs " + vb[i].first; return false; }
    if (va[i].second == vb[i].second) continue;
    if (perfect_fit && under(va[i].first, "/std-residual")) continue;
    double x, y;
    if (!gnet::parse_num(va[i].second, x) || !gnet::parse_num(vb[i].second, y)) { why = va[i].first + ": '" + va[i].second + "' vs '" + vb[i].second + "'"; return false; }
    const std::string& p = va[i].first;
    double tol;
    if (under(p, "coordinates/adjusted") || under(p, "coordinates/fixed")) tol = coord_tol;                  // metres
    // (with an a posteriori m0 they scale with the sum of squares, which gets 5e-3 below: with instrument heights, where
    //  the adjusted positions of two rounds may differ by gama-local's own stopping rule, they get the same)
    else if (under(p, "std-error-ellipses") || under(p, "cov-mat")) tol = (g_has_dh ? 5e-3 : 1e-3) * std::max(1.0, std::fabs(x)); // mm / mm^2, printed with few digits
    else if (under(p, "orientation-shifts")) tol = coord_tol;                                                // gon (as adjusted directions)
    else if (under(p, "observations/")) {
      std::string leaf = p.substr(p.rfind('/') + 1);
      if (leaf == "obs" || leaf == "adj") tol = coord_tol * std::max(1.0, std::fabs(x) * 1e-3);   // metres or gon
      else if (leaf == "stdev") tol = 2e-3 * std::max(1.0, std::fabs(x));
      else tol = 2e-3 * std::max(1.0, std::fabs(x)) + 2e-3;                                    // qrr, f, std-residual, err-obs, err-adj: three printed decimals
      // with instrument heights gama-local stops refining a reduction when it changes by less than 0.1 cc: a residual
      // may differ by that much between a run that iterated and one that starts from the adjusted coordinates, which
      // is 0.05 of a standard deviation of a few cc
      if (leaf == "std-residual" && g_has_dh) tol += 0.05;
    }
    else tol = 5e-3 * std::max(1.0, std::fabs(x));                                           // sums of squares, m0, ratios (second-order effects of restarting from the adjusted coordinates)
    if (std::fabs(x - y) <= tol) continue;
    // directions, angles and azimuths live on a circle of 400 gon: 0.0000 and 399.99999999 are neighbours
    if ((under(p, "/direction/") || under(p, "/angle/") || under(p, "/azimuth/")) && std::fabs(std::fabs(x - y) - 400.0) <= tol) continue;
    why = fmt("%s: %s vs %s", p.c_str(), va[i].second.c_str(), vb[i].second.c_str());
    return false;
  }
  return true;
}

std::string first_text(const Flat& f, const char* suffix)
{
  for (auto& it : f.items) if (it.first.size() >= strlen(suffix) && it.first.compare(it.first.size() - strlen(suffix), strlen(suffix), suffix) == 0) return it.second;
  return "";
}

// ------------------------------------------------------- survey comparison ---
// The export/parse pair is the mechanism C13 names: both documents are parsed by GKFparser into fresh networks and
// the in-memory data compared (no second implementation of implicit standard deviations, degrees, the 0.324 scale).
struct Survey { bool ok = false; std::string what; std::vector<std::string> lines; };

Survey parse_survey(const std::string& doc, bool with_coordinates)
{
  Survey s;
  GNU_gama::local::LocalNetwork net;
  try { gnet::parse_gkf(net, doc); }
  catch (const GNU_gama::local::ParserException& e) { s.what = fmt("line %d: %s", e.line, e.what()); return s; }
  catch (const GNU_gama::local::Exception& e) { s.what = e.what(); return s; }
  s.ok = true;
  std::string d = gnet::dump_network(net, with_coordinates);
  std::istringstream in(d); std::string ln;
  while (std::getline(in, ln)) s.lines.push_back(ln);
  return s;
}

// keep what C13 says is preserved; drop what an export legitimately adds or normalises
std::vector<std::string> survey_view(const Survey& s, bool with_coordinates)
{
  std::vector<std::string> v;
  for (const std::string& l : s.lines) {
    if (l.compare(0, 11, "apriori_m0 ") == 0) {
      // parameters: algorithm, cov-band and iterations are run options echoed by the export, not survey data
      std::istringstream in(l); std::string k, val, out;
      // (the epoch is not a parameter of the adjustment but a datum of the survey, written with all its digits: a record
      //  of its own, compared as strictly as an observed value)
      std::string epoch;
      while (in >> k >> val) { if (k == "epoch") epoch = val; else if (k != "algorithm" && k != "covband" && k != "maxiter" && k != "gons") out += k + " " + val + " "; }
      v.push_back(out); v.push_back("network-epoch " + epoch);
    } else if (l.compare(0, 6, "point ") == 0) {
      if (l.find("xy unused z unused") != std::string::npos) continue;      // points outside the adjustment are not exported
      v.push_back(l);
    } else if (l.compare(0, 12, "description ") == 0) {
      v.push_back(l);
    } else {
      // observation lines: "active" is a state of the adjustment (outliers are removed again by the next run), not of the survey
      std::string t = l; size_t p = t.find(" active ");
      if (p != std::string::npos) t.erase(p, 9);
      // "extern" is carried through to the results but is not among what C13 says an export preserves (the export
      // drops it): not compared
      p = t.find(" extern ["); if (p != std::string::npos) { size_t q = t.find(']', p); if (q != std::string::npos) t.erase(p, q - p + 1); }
      v.push_back(t);
    }
  }
  (void)with_coordinates;
  return v;
}

// Points are matched by identifier.  A coordinate group that the adjustment itself removed (singular, missing
// approximate value: reported as removed in the results) comes back as "unused", or the point is gone altogether:
// that is the adjusted state of the survey, not a change of it.  Anything else must be equal.
bool same_points(std::vector<std::string>& a, std::vector<std::string>& b, double rtol, bool allow_removal, std::string& why)
{
  auto split = [](std::vector<std::string>& v, std::map<std::string, std::string>& pts) {
    std::vector<std::string> rest;
    for (auto& l : v) { if (l.compare(0, 7, "point [") == 0) { size_t e = l.find("] "); pts[l.substr(7, e - 7)] = l.substr(e + 2); } else rest.push_back(l); }
    v = rest;
  };
  std::map<std::string, std::string> pa, pb; split(a, pa); split(b, pb);
  for (auto& kv : pb) if (!pa.count(kv.first)) { why = "[point [" + kv.first + "] " + kv.second + "] is not a point of the input"; return false; }
  for (auto& kv : pa) {
    auto it = pb.find(kv.first);
    if (it == pb.end()) { if (allow_removal) continue; why = "[point [" + kv.first + "] " + kv.second + "] is missing"; return false; }
    // " given_xy A given_z B" (clause 2 only): were coordinates GIVEN in the document.  The export may add computed
    // ones (0 -> 1); it may not drop given ones of a point that stays in the file (1 -> 0): they are input data that
    // other observations may use - a zenith angle needs the position of a point whose xy is not adjusted.
    std::string sa = kv.second, sb = it->second;
    auto take = [](std::string& r, int& gxy, int& gz) { size_t p = r.find(" given_xy "); gxy = gz = -1; if (p == std::string::npos) return; std::istringstream in(r.substr(p)); std::string k1, k2; in >> k1 >> gxy >> k2 >> gz; r = r.substr(0, p); };
    int axy, az, bxy, bz; take(sa, axy, az); take(sb, bxy, bz);
    if ((axy == 1 && bxy == 0) || (az == 1 && bz == 0)) { why = "[point [" + kv.first + "] " + kv.second + "] vs [point [" + kv.first + "] " + it->second + "]: given coordinates are not in the export"; return false; }
    if (sa == sb || gnet::tokens_equal(sa, sb, rtol)) continue;
    if (allow_removal) {
      // "xy S z T ..." : a group may have become "unused"
      std::istringstream ia(sa), ib(sb); std::string k1, sxa, k2, sza, k3, sxb, k4, szb;
      ia >> k1 >> sxa >> k2 >> sza; ib >> k3 >> sxb >> k4 >> szb;
      bool okxy = sxa == sxb || sxb == "unused", okz = sza == szb || szb == "unused";
      std::string ra, rb; std::getline(ia, ra); std::getline(ib, rb);
      if (okxy && okz && (sxa != sxb || sza != szb)) continue;        // coordinates of a removed group are not compared
      if (okxy && okz && gnet::tokens_equal(ra, rb, rtol)) continue;
    }
    why = "[point [" + kv.first + "] " + kv.second + "] vs [point [" + kv.first + "] " + it->second + "]";
    return false;
  }
  return true;
}

// In degrees mode the export writes angular values as dd-mm-ss.ssss: four decimals of an arc second, 5e-10 rad.
bool g_degrees = false;

bool same_survey(const std::vector<std::string>& a, const std::vector<std::string>& b, double rtol, std::string& why)
{
  if (a.size() != b.size()) {
    size_t i = 0; while (i < a.size() && i < b.size() && (a[i] == b[i] || gnet::tokens_equal(a[i], b[i], rtol))) i++;
    why = fmt("%zu vs %zu records; first difference at record %zu [%s] vs [%s]", a.size(), b.size(), i, i < a.size() ? a[i].substr(0, 150).c_str() : "(end)", i < b.size() ? b[i].substr(0, 150).c_str() : "(end)");
    return false;
  }
  for (size_t i = 0; i < a.size(); i++) {
    std::string w;
    // observed values and covariances are written with 17 significant digits (angles go gon -> radian -> gon: one
    // unit in the last place per round); the parameters line is written with 8 digits by design
    double rt = a[i].compare(0, 11, "apriori_m0 ") == 0 ? std::max(rtol, 1e-7) : std::min(rtol, 1e-12);
    bool angular_rec = a[i].find("DirectionE ") != std::string::npos || a[i].find("AngleE ") != std::string::npos || a[i].find("AzimuthE ") != std::string::npos;
    if (g_degrees && angular_rec) rt = 1e-9;      // radians of magnitude <= 2*pi: absolute 1e-9 .. 6e-9
    if (a[i] == b[i] || gnet::tokens_equal(a[i], b[i], rt, &w)) continue;
    why = "record " + std::to_string(i) + " [" + a[i].substr(0, 160) + "] vs [" + b[i].substr(0, 160) + "] (" + w + ")";
    return false;
  }
  return true;
}

// short stable tags for classes: the result path without indices, the kind of survey record
std::string slug_of(const std::string& why)
{
  size_t c = why.find(':'); std::string p = why.substr(0, c == std::string::npos ? 40 : c);
  size_t sl = p.rfind('/'); std::string leaf = sl == std::string::npos ? p : p.substr(sl + 1);
  if (why.find("items; first structural difference") != std::string::npos) {
    size_t q = why.find(": ", why.find("difference at item")); std::string a = q == std::string::npos ? "" : why.substr(q + 2, 60);
    size_t sp = a.find(' '); if (sp != std::string::npos) a = a.substr(0, sp);
    size_t sl2 = a.rfind('/'); std::string r = "structure-" + (sl2 == std::string::npos ? a : a.substr(sl2 + 1));
    for (auto& ch : r) if (!isalnum((unsigned char)ch) && ch != '-') ch = '-';
    return r.substr(0, 48);
  }
  std::string sec = p.find("coordinates") != std::string::npos ? "coordinates" : p.find("observations") != std::string::npos ? "observations" : p.find("items") != std::string::npos ? "structure" : "summary";
  std::string r; for (char ch : sec + "-" + leaf) r += (isalnum((unsigned char)ch) || ch == '-') ? ch : '-';
  return r.substr(0, 48);
}
std::string record_kind(const std::string& why)
{
  size_t b = why.find('['); if (b == std::string::npos) return "count";
  std::string rec = why.substr(b + 1, 60);
  if (rec.compare(0, 6, "point ") == 0) return "point";
  if (rec.compare(0, 8, "cluster ") == 0) return "cluster";
  if (rec.compare(0, 5, "  cov") == 0) return "cov-mat";
  if (rec.compare(0, 11, "apriori_m0 ") == 0) return "parameters";
  if (rec.compare(0, 14, "network-epoch ") == 0) return "epoch";
  if (rec.compare(0, 12, "description ") == 0) return "description";
  // observation: mangled type name  N8GNU_gama5local9DirectionE -> Direction
  size_t l = rec.find("local"); if (l != std::string::npos) { size_t i = l + 5; while (i < rec.size() && isdigit((unsigned char)rec[i])) i++; size_t e = rec.find("E ", i); if (e != std::string::npos) return "obs-" + rec.substr(i, e - i); }
  return "record";
}

// ----------------------------------------------------------------- engine ----
const char* ALGS[] = {"envelope", "cholesky", "gso", "svd"};

// validity-preserving edits that add what the archive rarely contains (C13's quantifier): heights of instrument and
// target, extern, dist, other statuses.  Each is a no-op where it does not apply.
bool apply_workload_edit(std::string& d, const Step& st)
{
  xmlscan::Scan S = xmlscan::scan(d);
  auto tags_named = [&](std::initializer_list<const char*> names) { std::vector<int> v; for (size_t t = 0; t < S.tags.size(); t++) if (S.tags[t].start) for (auto n : names) if (S.tags[t].name == n) v.push_back((int)t); return v; };
  auto has_attr = [&](const xmlscan::Tag& T, const char* n) { for (auto& a : T.attrs) if (d.substr(a.nb, a.ne - a.nb) == n) return true; return false; };
  auto insert_attr = [&](const xmlscan::Tag& T, const std::string& text) { size_t p = T.e - (T.empty ? 2 : 1); d.insert(p, " " + text + " "); };
  if (st.op == "dh") {
    std::vector<int> v = tags_named({"z-angle", "s-distance", "direction", "distance", "azimuth"}); if (v.empty()) return false;
    const xmlscan::Tag& T = S.tags[v[(size_t)st.arg(0) % v.size()]];
    const char* n = st.arg(1) % 2 ? "from_dh" : "to_dh"; if (has_attr(T, n)) return false;
    // centimetres, not metres: the other observations of the archive network know nothing of this height, and a
    // gross contradiction would only exercise gama-local's outlier rejection, which is not what C13 is about
    static const char* H[] = {"0.015", "0.0234", "0.0125", "0.02", "0.007525", "0.005"};
    insert_attr(T, std::string(n) + "=\"" + H[st.arg(2) % 6] + "\""); return true;
  }
  if (st.op == "adh") {
    std::vector<int> v = tags_named({"angle"}); if (v.empty()) return false;
    const xmlscan::Tag& T = S.tags[v[(size_t)st.arg(0) % v.size()]];
    static const char* N[] = {"from_dh", "bs_dh", "fs_dh"}; const char* n = N[st.arg(1) % 3]; if (has_attr(T, n)) return false;
    static const char* H[] = {"0.015", "0.0125", "0.0075"};
    insert_attr(T, std::string(n) + "=\"" + H[st.arg(2) % 3] + "\""); return true;
  }
  if (st.op == "cdh") {
    // the instrument height stated once for the whole stand (<obs from_dh=...>), and one of its observations with
    // an explicit height of its own (possibly zero)
    std::vector<int> v = tags_named({"obs"}); std::vector<int> ok;
    for (int t : v) { const xmlscan::Tag& T = S.tags[t]; if (T.empty || T.match < 0 || has_attr(T, "from_dh")) continue; ok.push_back(t); }
    if (ok.empty()) return false;
    int t = ok[(size_t)st.arg(0) % ok.size()]; const xmlscan::Tag& T = S.tags[t];
    // children: observation elements between the start tag and its end tag
    std::vector<int> kids; for (int c = t + 1; c < T.match; c++) { const std::string& n = S.tags[c].name; if (S.tags[c].start && (n == "z-angle" || n == "s-distance" || n == "direction" || n == "distance" || n == "azimuth") && !has_attr(S.tags[c], "from_dh")) kids.push_back(c); }
    static const char* H[] = {"0.015", "0.0125", "0.02"};
    // insert from the back so that offsets stay valid
    if (!kids.empty()) { const xmlscan::Tag& K = S.tags[kids[(size_t)st.arg(1) % kids.size()]]; static const char* Z[] = {"0", "0", "0.005"}; insert_attr(K, std::string("from_dh=\"") + Z[st.arg(2) % 3] + "\""); }
    d.insert(T.e - 1, std::string(" from_dh=\"") + H[st.arg(2) % 3] + "\" ");
    return true;
  }
  if (st.op == "ext") {
    std::vector<int> v = tags_named({"z-angle", "s-distance", "direction", "distance", "azimuth", "angle", "dh", "vec"}); if (v.empty()) return false;
    const xmlscan::Tag& T = S.tags[v[(size_t)st.arg(0) % v.size()]]; if (has_attr(T, "extern")) return false;
    insert_attr(T, fmt("extern=\"id %lld\"", st.arg(1) % 1000)); return true;
  }
  if (st.op == "dist") {
    std::vector<int> v = tags_named({"dh"}); if (v.empty()) return false;
    const xmlscan::Tag& T = S.tags[v[(size_t)st.arg(0) % v.size()]]; if (has_attr(T, "dist") || !has_attr(T, "stdev")) return false;
    insert_attr(T, fmt("dist=\"%lld.5\"", 1 + st.arg(1) % 9)); return true;
  }
  if (st.op == "status") {
    // free <-> constrained: adj="xy" <-> adj="XY" (same adjustment model family, other regularisation)
    std::vector<int> v = tags_named({"point"}); std::vector<const xmlscan::Attr*> as;
    for (int t : v) for (auto& a : S.tags[t].attrs) if (d.substr(a.nb, a.ne - a.nb) == "adj") as.push_back(&a);
    if (as.empty()) return false; const xmlscan::Attr* a = as[(size_t)st.arg(0) % as.size()];
    std::string before = d.substr(a->vb, a->ve - a->vb);
    for (size_t i = a->vb; i < a->ve; i++) d[i] = st.arg(1) % 2 ? (char)toupper((unsigned char)d[i]) : (char)tolower((unsigned char)d[i]);
    // A free network whose datum rests on exactly ONE constrained point is ill-posed (the point fixes the translation,
    // nothing fixes the rotation): its adjusted coordinates depend on the approximate ones, so two rounds differ by
    // construction.  The edit is taken back when it leaves exactly one constrained position.
    int nXY = 0; for (const xmlscan::Attr* q : as) if (d.compare(q->vb, 2, "XY") == 0) nXY++;
    if (nXY == 1) { d.replace(a->vb, a->ve - a->vb, before); return false; }
    return true;
  }
  if (st.op == "ids") {
    // a point identifier that needs escaping, written with entities (every attribute that refers to the point is renamed)
    std::vector<int> pts = tags_named({"point"}); if (pts.empty()) return false;
    std::string id; { const xmlscan::Tag& T = S.tags[pts[(size_t)st.arg(0) % pts.size()]]; for (auto& a : T.attrs) if (d.substr(a.nb, a.ne - a.nb) == "id") id = d.substr(a.vb, a.ve - a.vb); }
    if (id.empty() || id.find('&') != std::string::npos) return false;
    // (no '<': gama-local's RESULT writer does not escape identifiers either - C12's territory - and a raw '<' in the
    //  result document would derail this harness's own flattener)
    static const char* SUF[] = {"&amp;", "&amp;amp;", "&gt;", "&quot;q", "&#228;", " b"};
    std::string nid = id + SUF[st.arg(1) % 6];
    // replace from the back so that offsets stay valid
    struct R { size_t b, e; }; std::vector<R> rs;
    for (auto& T : S.tags) for (auto& a : T.attrs) { std::string n = d.substr(a.nb, a.ne - a.nb); if ((n == "id" || n == "from" || n == "to" || n == "bs" || n == "fs") && d.substr(a.vb, a.ve - a.vb) == id) rs.push_back({a.vb, a.ve}); }
    for (size_t i = rs.size(); i-- > 0;) d.replace(rs[i].b, rs[i].e - rs[i].b, nid);
    return !rs.empty();
  }
  if (st.op == "desc") {
    // the description: text that needs escaping in every legal spelling (entities, a CDATA section, the sequence "]]>"
    // which may not stand literally in character data, quotes, a tab)
    static const char* TXT[] = {"limit a[b[i]]&gt;0 &amp; more", "x &lt; y &amp;&amp; y &gt; z", "<![CDATA[ q ]] > r < s & t ]]>", "&quot;quoted&quot; &apos;single&apos; \"plain\" 'too'",
                                "tab\there &#228;&#x20AC; end", "]]&gt;", "a]]&gt;]]&gt;b"};
    std::string txt = TXT[st.arg(0) % 7];
    for (size_t t = 0; t < S.tags.size(); t++) if (S.tags[t].start && S.tags[t].name == "description" && S.tags[t].match >= 0 && !S.tags[t].empty) {
      size_t b = S.tags[t].e, e = S.tags[S.tags[t].match].b; if (e < b) return false;
      d.replace(b, e - b, txt); return true;
    }
    std::vector<int> v = tags_named({"network"}); if (v.empty() || S.tags[v[0]].empty) return false;
    d.insert(S.tags[v[0]].e, "\n<description>" + txt + "</description>\n"); return true;
  }
  if (st.op == "npar") {
    // numeric attributes of <network> and <parameters> with more significant digits than the archive has (epoch="123",
    // sigma-apr="10"): the value is set, or replaces the one that is there
    static const char* NAME[] = {"epoch", "sigma-apr", "conf-pr", "tol-abs"};
    static const char* VAL[4][3] = {{"2021.70684932", "20210915.0630", "1999.123456789"}, {"10.123456789", "7.0710678118", "1.00000001"},
                                    {"0.950000001", "0.9544997361", "0.901234567"}, {"1000.00001", "1234.56789012", "999.999999"}};
    int w = (int)(st.arg(0) % 4); std::vector<int> v = tags_named({w == 0 ? "network" : "parameters"}); if (v.empty()) return false;
    const xmlscan::Tag& T = S.tags[v[0]]; std::string val = VAL[w][st.arg(1) % 3];
    for (auto& a : T.attrs) if (d.substr(a.nb, a.ne - a.nb) == NAME[w]) { d.replace(a.vb, a.ve - a.vb, val); return true; }
    insert_attr(T, std::string(NAME[w]) + "=\"" + val + "\""); return true;
  }
  if (st.op == "prec") {
    // more significant digits than the archive usually has (a value like 141.44 survives any rounding on output)
    std::vector<int> v = tags_named({"z-angle", "s-distance", "direction", "distance", "angle", "dh", "azimuth"}); if (v.empty()) return false;
    const xmlscan::Tag& T = S.tags[v[(size_t)st.arg(0) % v.size()]];
    for (auto& a : T.attrs) if (d.substr(a.nb, a.ne - a.nb) == "val" && a.ve > a.vb) {
      std::string val = d.substr(a.vb, a.ve - a.vb);
      if (val.find('.') == std::string::npos || val.find('-', 1) != std::string::npos || val.find('e') != std::string::npos || !isdigit((unsigned char)val.back())) return false;
      static const char* X[] = {"1234567", "03125", "7071", "999"};
      d.insert(a.ve, X[st.arg(1) % 4]); return true;
    }
    return false;
  }
  if (st.op == "coo") {
    // a <coordinates> cluster of observed coordinates mixing kinds: xy only, z only, xyz, in any order (the archive has
    // no z inside such a cluster), with a diagonal or band-1 covariance matrix.  Values: the given coordinates of
    // adjusted points, moved by a few millimetres.
    std::vector<std::pair<size_t, size_t>> inside;
    for (size_t t = 0; t < S.tags.size(); t++) if (S.tags[t].start && S.tags[t].name == "coordinates" && S.tags[t].match >= 0) inside.push_back({S.tags[t].b, S.tags[S.tags[t].match].e});
    struct P { std::string id, x, y, z; };
    std::vector<P> pts;
    for (int t : tags_named({"point"})) {
      const xmlscan::Tag& T = S.tags[t]; bool in = false; for (auto& r : inside) if (T.b >= r.first && T.b < r.second) in = true;
      // adjusted points, and in one cluster of four also FIXED ones (an observed coordinate of a fixed point is legal
      // input: it only contributes a residual - and its <point> inside the cluster must not move the fixed point)
      bool with_fixed = (st.arg(2) / 4) % 4 == 1;
      if (in || !(has_attr(T, "adj") || (with_fixed && has_attr(T, "fix")))) continue;
      P q; for (auto& a : T.attrs) { std::string n = d.substr(a.nb, a.ne - a.nb), v = d.substr(a.vb, a.ve - a.vb); if (n == "id") q.id = v; else if (n == "x") q.x = v; else if (n == "y") q.y = v; else if (n == "z") q.z = v; }
      auto plain = [](const std::string& v) { if (v.empty()) return false; for (char c : v) if (!(isdigit((unsigned char)c) || c == '.' || c == '-' || c == ' ')) return false; return true; };
      if (q.id.empty() || q.id.find('"') != std::string::npos) continue;
      if (!plain(q.x) || !plain(q.y)) q.x = q.y = "";
      if (!plain(q.z)) q.z = "";
      if (q.x.empty() && q.z.empty()) continue;
      pts.push_back(q);
    }
    size_t close = d.rfind("</points-observations>");
    if (pts.empty() || close == std::string::npos) return false;
    int m = 2 + (int)(st.arg(1) % 3), dim = 0; std::string body; uint64_t h = (uint64_t)st.arg(2) * 2654435761u + 12345;
    auto shifted = [&](const std::string& v, int mm) { return fmt("%.4f", atof(v.c_str()) + 0.001 * mm); };
    for (int i = 0; i < m; i++) {
      const P& q = pts[(size_t)(st.arg(0) + i * 7) % pts.size()]; h = h * 6364136223846793005ull + 1442695040888963407ull;
      int kind = (int)((h >> 33) % 3);                       // 0 xy, 1 z, 2 xyz
      if (q.x.empty()) kind = 1; else if (q.z.empty()) kind = 0;
      body += "<point id=\"" + q.id + "\"";
      if (kind != 1) { body += " x=\"" + shifted(q.x, 2) + "\" y=\"" + shifted(q.y, -1) + "\""; dim += 2; }
      if (kind != 0) { body += " z=\"" + shifted(q.z, 3) + "\""; dim += 1; }
      body += " />\n";
    }
    int band = dim > 1 && st.arg(2) % 2 ? 1 : 0;
    std::string cov = fmt("<cov-mat dim=\"%d\" band=\"%d\">", dim, band);
    for (int i = 0; i < dim; i++) { cov += " 25"; if (band && i + 1 < dim) cov += " 2"; }
    // at the end of the section or at its BEGINNING, before the points are declared (the declarations that follow
    // then state the approximate / fixed coordinates, whatever the cluster said)
    size_t where = close;
    if ((st.arg(2) / 2) % 2 == 1) { for (size_t t = 0; t < S.tags.size(); t++) if (S.tags[t].start && S.tags[t].name == "points-observations") { where = S.tags[t].e; break; } }
    d.insert(where, "\n<coordinates>\n" + body + cov + " </cov-mat>\n</coordinates>\n");
    return true;
  }
  if (st.op == "tiny") {
    // an observed value that is negative, tiny and needs all its digits: -1.2345678901234567e-05 is 23 characters in
    // scientific notation, the longest a double gets (height differences and vector components are the quantities
    // that can be that small)
    std::vector<int> v = tags_named({"dh", "vec"}); if (v.empty()) return false;
    const xmlscan::Tag& T = S.tags[v[(size_t)st.arg(0) % v.size()]];
    static const char* TV[] = {"-0.000012345678901234567", "-0.00000010000000000000001", "-0.0000234567890123456", "0.000098765432109876543"};
    const char* want = T.name == "dh" ? "val" : (st.arg(1) % 3 == 0 ? "dx" : st.arg(1) % 3 == 1 ? "dy" : "dz");
    for (auto& a : T.attrs) if (d.substr(a.nb, a.ne - a.nb) == want) { d.replace(a.vb, a.ve - a.vb, TV[st.arg(2) % 4]); return true; }
    return false;
  }
  if (st.op == "noise") {
    // perturb an observed value in its last written digit
    std::vector<int> v = tags_named({"z-angle", "s-distance", "direction", "distance", "angle", "dh", "azimuth"}); if (v.empty()) return false;
    const xmlscan::Tag& T = S.tags[v[(size_t)st.arg(0) % v.size()]];
    for (auto& a : T.attrs) if (d.substr(a.nb, a.ne - a.nb) == "val" && a.ve > a.vb) { char& c = d[a.ve - 1]; if (c >= '0' && c <= '8') { c++; return true; } if (c == '9') { c = '8'; return true; } }
    return false;
  }
  return false;
}

class RestartEngine : public Engine {
public:
  const char* name() const override { return "sim_restart"; }
  const char* property() const override { return "C13"; }
  void init(const std::string&) override { load_all(); }
  long recycle_after() override { return 400; }
  Plan generate(uint64_t seed, uint64_t index, const std::string& tier) override;
  Verdict execute(const Plan& plan, EventLog& log, Stats& st) override;
  std::vector<Plan> simplify(const Plan& p) override;
};

Verdict RestartEngine::execute(const Plan& plan, EventLog& log, Stats& st)
{
  load_all();
  std::string D = from_hex(plan.get("doc", ""));
  if (D.empty()) D = g_docs[(size_t)plan.geti("docidx", 0) % g_docs.size()].bytes;
  int nedit = 0;
  for (const Step& s : plan.steps) if (s.op != "cuts" && apply_workload_edit(D, s)) { nedit++; st.add("workload." + s.op); }
  std::string alg = ALGS[plan.geti("alg", 0) % 4];
  int rounds = (int)std::min<long long>(3, std::max<long long>(1, plan.geti("rounds", 3)));
  std::string extra = plan.get("extra", "");
  log.line("doc %016llx bytes %zu edits %d alg %s rounds %d extra [%s]", (unsigned long long)fnv(D), D.size(), nedit, alg.c_str(), rounds, extra.c_str());

  g_has_dh = D.find("_dh") != std::string::npos;
  g_degrees = plan.get("angular", "").find("360") != std::string::npos || D.find("angles=\"360\"") != std::string::npos || D.find("angles='360'") != std::string::npos;
  st.shape = plan.get("name", "") + ":" + alg + ":";
  for (const Step& s : plan.steps) st.shape += s.op + ",";
  // is the original a document gama-local accepts at all?
  Survey S0 = parse_survey(D, false);
  if (!S0.ok) { log.line("original not accepted: %s", S0.what.c_str()); st.add("trivial.original_refused"); return Verdict(); }

  std::string input = D, prevR, prevE; Survey prevS;
  int iter0 = -1;
  for (int k = 0; k <= rounds; k++) {
    // round k: a new emulated process; rounds >= 1 read the previous export through a seeded chunk plan
    std::vector<size_t> lens;
    if (k >= 1) { Rng g((uint64_t)plan.geti("chunkseed", 1) * 131 + k); size_t left = input.size(); int n = (int)g.range(0, 12); for (int i = 0; i < n && left > 1; i++) { size_t l = (size_t)g.range(1, (long long)std::max<size_t>(2, left / 2)); lens.push_back(l); left -= l; } }
    // gama-local switches the network to gons before it writes the XML results, and it writes them BEFORE the export:
    // with --xml in the same process every export is made in gons.  A third of the histories therefore export from
    // a process without --xml (text output only, optionally --angular 360) and take the results from a sibling
    // process on the same input.
    bool noxml = plan.geti("noxml", 0) != 0;
    std::vector<std::string> args = {"-", "--algorithm", alg, "--export", "@F0"};
    if (noxml) { args.push_back("--text"); args.push_back("@F1"); } else { args.push_back("--xml"); args.push_back("@F1"); }
    std::vector<std::string> ang; { std::istringstream as(plan.get("angular", "")); std::string t; while (as >> t) ang.push_back(t); }
    if (k == 0) for (auto& t : ang) args.push_back(t);
    // (the sibling process must see the same options, so a history without --xml carries no unrelated extras)
    std::istringstream ex(k == 0 ? extra : plan.get("extra_later", "")); std::string tok; while (ex >> tok) if (!noxml) args.push_back(tok);
    procemu::Result R = procemu::run_gama_local(args, input, lens, false);
    st.add("processes"); st.add("rounds"); st.add("bytes_delivered", (long long)R.delivered); st.add("chunks", (long long)lens.size() + 1);
    std::string E = R.files.size() > 0 ? R.files[0] : "", X = R.files.size() > 1 ? R.files[1] : "";
    if (noxml) {
      std::vector<std::string> a2 = {"-", "--algorithm", alg, "--xml", "@F0"};
      procemu::Result R2 = procemu::run_gama_local(a2, input, {}, false); st.add("processes");
      X = R2.files.size() > 0 ? R2.files[0] : "";
      if (R2.exit_code != 0 && R.exit_code == 0) R.exit_code = R2.exit_code;
    }
    std::string cat; { size_t p = X.find("<error category=\""); if (p != std::string::npos) cat = X.substr(p + 17, X.find('"', p + 17) - p - 17); }
    if (const char* dd = getenv("VERIF_DUMP_DIR")) { write_file(fmt("%s/in%d.gkf", dd, k), input); write_file(fmt("%s/E%d.gkf", dd, k), E); write_file(fmt("%s/R%d.xml", dd, k), X); }   // debugging aid
    log.line("round %d exit=%d error=%s export=%016llx(%zu) result=%016llx(%zu)", k, R.exit_code, cat.c_str(), (unsigned long long)fnv(E), E.size(), (unsigned long long)fnv(X), X.size());
    if (R.escaped) return Verdict::fail("C13:escaped-exception", k, R.escaped_what);
    if (k == 0) {
      if (R.exit_code != 0 || !cat.empty() || E.empty()) { st.add("trivial.round0_not_adjusted"); log.line("round 0 did not adjust"); return Verdict(); }
      Flat f = flatten(X); std::string it = first_text(f, "linearization-iterations"); iter0 = it.empty() ? 0 : atoi(it.c_str());
      st.state("c13", fmt("alg=%s/iter0=%d/edits=%d", alg.c_str(), std::min(iter0, 5), std::min(nedit, 3)));
      // a round 0 that stopped at the iteration limit has not converged: it proves nothing about the export
      if (iter0 >= 5) { st.add("trivial.round0_not_converged"); log.line("round 0 did not converge"); return Verdict(); }
    }
    if (k >= 1) {
      // clause 1: the exported file is a valid input
      if (!cat.empty() || R.exit_code != 0)
        return Verdict::fail(fmt("C13:export-not-accepted:%s", cat.empty() ? "exit" : cat.c_str()), k, fmt("round %d: the file exported by round %d was refused (%s, exit %d)", k, k - 1, cat.c_str(), R.exit_code));
      st.nontrivial = true;
      // clause 3: the same adjustment
      std::string why;
      // gama-local rejects observations whose absolute term (computed from the APPROXIMATE coordinates) exceeds tol-abs.
      // The exported file carries every observation (clause 2 / 5 check that), so if a later round adjusts fewer of
      // them it is this rejection deciding differently from other approximate coordinates - a property of the
      // rejection rule, not of the export.  Such a history is counted, and this pair of rounds is not compared.
      {
        auto nobs = [](const std::string& x) { Flat f = flatten(x); long n = 0; for (auto& it : f.items) if (it.first.find("/observations/") != std::string::npos && it.first.size() > 4 && it.first.compare(it.first.size() - 4, 4, "/obs") == 0) n++; return n; };
        if (nobs(prevR) != nobs(X)) { st.add("outlier_rejection_differs"); log.line("round %d adjusts another number of observations", k); prevR = X; prevE = E; input = E; prevS = parse_survey(E, true); continue; }
      }
      if (!compare_results(prevR, X, why)) return Verdict::fail("C13:results-differ:" + slug_of(why), k, fmt("round %d vs round %d: %s", k - 1, k, why.c_str()));
      // clause 4: no further linearisation iterations, provided round 0 converged
      if (iter0 >= 0 && iter0 < 5) {
        Flat f = flatten(X); std::string it = first_text(f, "linearization-iterations");
        if (!it.empty() && atoi(it.c_str()) > (g_has_dh ? 1 : 0)) return Verdict::fail("C13:needs-more-iterations", k, fmt("round %d reports %s linearization iterations after round 0 converged in %d", k, it.c_str(), iter0));
      } else st.add("trivial.round0_not_converged");
    }
    // clause 2 / 5: what the export describes
    Survey Sk = parse_survey(E, true);
    if (!Sk.ok) return Verdict::fail("C13:export-not-parsable", k, fmt("the export of round %d is refused by GKFparser: %s", k, Sk.what.c_str()));
    std::string why;
    if (k == 0) {
      Survey Sorig = parse_survey(D, true);
      std::vector<std::string> a = survey_view(Sorig, false), b = survey_view(Sk, false);
      // coordinates are exempt in clause 2 (they are supposed to be updated): strip them
      // ("has_xy/has_z" say whether approximate coordinates were GIVEN; the export always carries the computed ones)
      auto strip_xyz = [](std::vector<std::string>& v) { for (auto& l : v) if (l.compare(0, 6, "point ") == 0) { size_t p = l.find(" has_xy "); if (p != std::string::npos) { std::istringstream in(l.substr(p)); std::string k1, k2; int a = 0, b = 0; in >> k1 >> a >> k2 >> b; l = l.substr(0, p) + fmt(" given_xy %d given_z %d", a, b); } } };
      strip_xyz(a); strip_xyz(b);
      if (!same_points(a, b, 1e-7, true, why)) return Verdict::fail("C13:export-changes-survey:point", 0, "the export of round 0 does not describe the survey of the input: " + why);
      bool reduced = false; for (auto& l : Sorig.lines) if (l.compare(0, 11, "apriori_m0 ") == 0 && (l.find(" latitude -1 ") == std::string::npos || l.find(" ellipsoid - ") == std::string::npos)) reduced = true;
      if (!same_survey(a, b, 1e-7, why)) return Verdict::fail("C13:export-changes-survey:" + record_kind(why) + (reduced ? ":with-ellipsoid-reduction" : ""), 0, "the export of round 0 does not describe the survey of the input: " + why);
    } else {
      std::vector<std::string> a = survey_view(prevS, true), b = survey_view(Sk, true);
      if (!same_points(a, b, g_has_dh ? 5e-7 : 2e-8, false, why)) return Verdict::fail("C13:export-not-a-fixed-point:point", k, fmt("export of round %d vs export of round %d: %s", k - 1, k, why.c_str()));
      // (coordinates: within 2e-5 m, as for the adjusted coordinates of the results)
      if (!same_survey(a, b, 2e-8, why)) return Verdict::fail("C13:export-not-a-fixed-point:" + record_kind(why), k, fmt("export of round %d vs export of round %d: %s", k - 1, k, why.c_str()));
    }
    prevR = X; prevE = E; prevS = Sk; input = E;
  }
  return Verdict();
}

Plan RestartEngine::generate(uint64_t seed, uint64_t, const std::string&)
{
  load_all();
  Rng g(seed);
  Plan p;
  static const int FILLS[] = {FILL_00, FILL_FF, FILL_A5, FILL_PRNG};
  p.seti("fill", FILLS[g.below(4)]);
  p.seti("refill", g.chance(1, 10) ? 1 : 0);
  size_t di = (size_t)g.below(g_docs.size());
  if (g.chance(1, 2)) { size_t dj = (size_t)g.below(g_docs.size()); if (g_docs[dj].bytes.size() < g_docs[di].bytes.size()) di = dj; }
  p.set("name", g_docs[di].name);
  p.set("doc", to_hex(g_docs[di].bytes));
  // the dense algorithms are cubic in the network size and slow under the sanitizers: large networks run with envelope
  p.seti("alg", g_docs[di].bytes.size() > 5000 ? 0 : (long long)g.below(4));
  if (g.chance(1, 5)) {
    // a grammar-derived network instead of an archive document (C13: "all generated networks incl. every observation /
    // cluster type"): three fixed points, one or two points to be determined with or without given coordinates,
    // enough observations of mixed kinds to determine them, a few more at random, sometimes vectors and levelling.
    // The document is built here, carried in the plan as text, and shrunk like any other.
    std::string doc = ioev::tidy_network(g);
    p.set("name", "synthetic-gkf"); p.set("doc", to_hex(doc)); p.seti("alg", (long long)g.below(4));
  }
  p.seti("rounds", 3);
  p.seti("chunkseed", (long long)g.below(1u << 30));
  // options that cannot legitimately change a number
  std::string extra, later;
  if (g.chance(1, 4)) extra += " --text @F2";
  if (g.chance(1, 6)) extra += " --html @F3";
  if (g.chance(1, 8)) extra += " --language cz";
  if (g.chance(1, 6)) later += " --svg @F2";
  if (g.chance(1, 8)) later += " --language fr";
  if (g.chance(1, 5)) { extra += " --cov-band 1"; later += " --cov-band 1"; }
  p.set("extra", extra); p.set("extra_later", later);
  if (g.chance(1, 3)) { p.seti("noxml", 1); if (g.chance(1, 2)) p.set("angular", "--angular 360"); else if (g.chance(1, 4)) p.set("angular", "--angular 400"); }
  int ne = g.chance(1, 3) ? 0 : (int)g.range(1, 4);
  static const char* W[] = {"dh", "dh", "adh", "ext", "dist", "status", "noise", "prec", "prec", "ids", "cdh", "cdh", "coo", "coo", "tiny", "npar", "desc"};
  for (int i = 0; i < ne; i++) { Step s; s.op = W[g.below(17)]; s.a = {(long long)g.below(1000), (long long)g.below(1000), (long long)g.below(1000)}; p.steps.push_back(s); }
  return p;
}

std::vector<Plan> RestartEngine::simplify(const Plan& p)
{
  std::vector<Plan> out;
  if (p.geti("refill", 0)) { Plan c = p; c.seti("refill", 0); out.push_back(c); }
  if (!p.get("extra").empty() || !p.get("extra_later").empty()) { Plan c = p; c.set("extra", ""); c.set("extra_later", ""); out.push_back(c); }
  if (p.geti("noxml", 0)) { Plan c = p; c.seti("noxml", 0); c.set("angular", ""); out.push_back(c); }
  if (p.geti("rounds", 3) > 1) { Plan c = p; c.seti("rounds", p.geti("rounds", 3) - 1); out.push_back(c); }
  // a smaller network: drop observation elements / clusters one at a time
  std::string D = from_hex(p.get("doc", ""));
  if (!D.empty()) {
    xmlscan::Scan S = xmlscan::scan(D); int added = 0;
    for (size_t t = 0; t < S.tags.size() && added < 60; t++) {
      const xmlscan::Tag& T = S.tags[t];
      if (!T.start) continue;
      if (T.name == "obs" || T.name == "height-differences" || T.name == "vectors" || T.name == "coordinates" || T.name == "direction" || T.name == "distance" || T.name == "angle" ||
          T.name == "z-angle" || T.name == "s-distance" || T.name == "dh" || T.name == "azimuth" || T.name == "description") {
        size_t b, e; S.element_range((int)t, b, e); Plan c = p; std::string d2 = D; d2.erase(b, e - b); c.set("doc", to_hex(d2)); out.push_back(c); added++;
      }
    }
  }
  return out;
}

} // namespace

int main(int argc, char** argv)
{
  RestartEngine e;
  return sim::driver_main(argc, argv, e);
}

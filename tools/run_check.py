#!/usr/bin/env python3
"""Run one property's check: build from /repo's working tree, drive a pool of
engine workers over a seeded batch of simulated runs, confirm / shrink / replay
every violation, write the evidence file.

  python3 tools/run_check.py C04 --tier quick|thorough

Exit status: 0 clean (known findings printed, not counted); 1 with a line
`VIOLATION property=<id> replay=<path>` per new confirmed violation class;
2 when the harness cannot vouch for its own result.
"""
import argparse, json, os, re, select, subprocess, sys, time, hashlib

ROOT = os.path.dirname(os.path.dirname(os.path.abspath(__file__)))
os.chdir(ROOT)

CONFIG = {
    "C15": dict(engine="sim_objs", level="exploration", design="DESIGN.md section 7",
                quick=dict(runs=120000, budget_s=100), thorough=dict(runs=4000000, budget_s=1500)),
    "C04": dict(engine="sim_hist", level="exploration", design="DESIGN.md section 4",
                quick=dict(runs=70000, budget_s=130), thorough=dict(runs=3000000, budget_s=1700)),
    "C11": dict(engine="sim_io", level="fault_enumeration", design="DESIGN.md section 5",
                quick=dict(runs=60000, budget_s=150), thorough=dict(runs=3000000, budget_s=1800)),
    "C13": dict(engine="sim_restart", level="exploration", design="DESIGN.md section 6",
                quick=dict(runs=6000, budget_s=130), thorough=dict(runs=200000, budget_s=1700)),
}

REAL_STUB = {
    "real": "all Gama code the property names (compiled from /repo's working tree with the hook guard on), expat, libstdc++ streams",
    "emulated": "process boundary (in-process call of the renamed main plus reset of process-wide state), file system (memfd), byte transport (SimStreamBuf), heap contents of fresh blocks (operator new fill pattern)",
    "stub": "nothing inside Gama is replaced",
}


def log(msg):
    print(msg, flush=True)


def build(engine):
    t0 = time.time()
    targets = ["build/" + engine]
    if engine in ("sim_io", "sim_restart"):
        targets += ["build/real-gama-local", "build/sim_io"]      # tools/fidelity.py drives the emulated side through sim_io
    p = subprocess.run(["make", "-j16"] + targets, stdout=subprocess.PIPE, stderr=subprocess.STDOUT, text=True)
    if p.returncode != 0:
        log(p.stdout[-6000:])
        log("HARNESS: build failed")
        sys.exit(2)
    return time.time() - t0


class Worker:
    def __init__(self, k, engine, tier, seed):
        self.k = k
        os.makedirs("build/tmp", exist_ok=True)
        self.errpath = "build/tmp/worker-%s-%d-%d.err" % (engine, os.getpid(), k)
        self.errf = open(self.errpath, "wb")
        env = dict(os.environ, VERIF_SEED=str(seed), VERIF_TIER=tier)
        self.p = subprocess.Popen(["build/" + engine, "--worker", "--tier", tier, "--seed", str(seed)],
                                  stdin=subprocess.PIPE, stdout=subprocess.PIPE, stderr=self.errf, env=env, bufsize=0)
        self.fd = self.p.stdout.fileno()
        self.buf = b""
        self.queue = []      # indices sent, not yet ended
        self.begun = None
        self.done = 0
        self.dead = False
        self.quitting = False
        self.recycling = False

    def send(self, idxs):
        self.queue += idxs
        try:
            self.p.stdin.write(("".join("run %d\n" % i for i in idxs)).encode())
        except BrokenPipeError:
            pass

    def quit(self):
        self.quitting = True
        try:
            self.p.stdin.write(b"quit\n")
            self.p.stdin.close()
        except Exception:
            pass


def sanitize_counts(paths):
    """count non-gating UBSan reports by kind (they go to the workers' fd 2)"""
    kinds = {}
    pat = re.compile(rb"runtime error: (.*)")
    for p in paths:
        try:
            with open(p, "rb") as f:
                for ln in f:
                    m = pat.search(ln)
                    if not m:
                        continue
                    msg = m.group(1)
                    if b"null pointer passed as argument" in msg: k = "nonnull-attribute"
                    elif b"signed integer overflow" in msg: k = "signed-integer-overflow"
                    elif b"outside the range of representable values" in msg: k = "float-cast-overflow"
                    elif b"division by zero" in msg: k = "divide-by-zero"
                    elif b"load of value" in msg and b"bool" in msg: k = "bool"
                    elif b"load of value" in msg: k = "enum"
                    elif b"shift" in msg: k = "shift"
                    elif b"applying" in msg and b"offset" in msg: k = "pointer-overflow(null-offset)"
                    elif b"pointer index expression" in msg: k = "pointer-overflow"
                    else: k = "other:" + msg[:40].decode("ascii", "replace")
                    kinds[k] = kinds.get(k, 0) + 1
        except OSError:
            pass
    return kinds


def main():
    ap = argparse.ArgumentParser()
    ap.add_argument("prop")
    ap.add_argument("--tier", default=os.environ.get("VERIF_TIER", "quick"), choices=["quick", "thorough"])
    ap.add_argument("--workers", type=int, default=int(os.environ.get("VERIF_WORKERS", "12")))
    ap.add_argument("--runs", type=int, default=0)
    ap.add_argument("--budget-s", type=float, default=0)
    ap.add_argument("--no-evidence", action="store_true")
    ap.add_argument("--max-classes", type=int, default=8)
    ap.add_argument("--list-classes", action="store_true", help="debugging: list violation classes with counts and stop")
    args = ap.parse_args()
    prop = args.prop
    cfg = CONFIG[prop]
    engine = cfg["engine"]
    tier = args.tier
    seed = int(os.environ.get("VERIF_SEED", "1"))
    nruns = args.runs or cfg[tier]["runs"]
    budget = args.budget_s or cfg[tier]["budget_s"]
    t_start = time.time()

    build_s = build(engine)
    log("built %s in %.1fs" % (engine, build_s))

    # enumerated (non-random) part first: indices [0, E); random part after it
    E = int(subprocess.run(["build/" + engine, "--count", "--tier", tier], stdout=subprocess.PIPE, text=True,
                           env=dict(os.environ, VERIF_SEED=str(seed))).stdout.strip() or 0)
    total = E + nruns

    workers = [Worker(k, engine, tier, seed) for k in range(args.workers)]
    errpaths = [w.errpath for w in workers]
    next_idx = 0
    results = {}            # idx -> (hash, ok, cls, step, nontrivial, nsteps)
    counters = {}
    states = {}
    crashed = []            # indices that killed a worker
    BATCH = 16
    det_sample = []
    det_pending = []
    det_mismatch = []
    det_checked = 0
    phase = "main"
    t_runs0 = time.time()
    hung = []

    def handle_line(w, ln):
        nonlocal det_checked
        parts = ln.split(" ")
        if parts[0] == "begin":
            w.begun = int(parts[1])
        elif parts[0] == "end":
            idx = int(parts[1]); h = parts[2]; ok = parts[3] == "ok"; cls = parts[4]
            step = int(parts[5]); nontriv = parts[6] == "1"; nsteps = int(parts[7]); kv = parts[8] if len(parts) > 8 else "-"
            w.begun = None
            if idx in w.queue: w.queue.remove(idx)
            w.done += 1
            if idx in results:
                det_checked += 1
                if results[idx][0] != h or results[idx][2] != cls:
                    det_mismatch.append((idx, results[idx][0], h))
            else:
                results[idx] = (h, ok, cls, step, nontriv, nsteps)
                if kv != "-":
                    for item in kv.split(","):
                        k, _, v = item.partition("=")
                        try: counters[k] = counters.get(k, 0) + int(v)
                        except ValueError: pass
        elif parts[0] == "states":
            states.setdefault(parts[1], set()).update(parts[2:])
        elif parts[0] == "recycle":
            w.recycling = True
        elif parts[0] == "hang":
            if w.begun is not None: hung.append(w.begun)

    def refill(w):
        nonlocal next_idx
        if w.dead or w.quitting: return
        if time.time() - t_runs0 > budget and phase == "main": return
        while len(w.queue) < BATCH:
            if phase == "main":
                if next_idx >= total: break
                n = min(BATCH, total - next_idx)
                w.send(list(range(next_idx, next_idx + n))); next_idx += n
            else:
                if not det_pending: break
                w.send([det_pending.pop()])

    live = list(workers)
    for w in live: refill(w)
    while True:
        active = [w for w in workers if not w.dead]
        if not active: break
        if phase == "main" and (next_idx >= total or time.time() - t_runs0 > budget) and all(not w.queue for w in active):
            # determinism sample: re-run a spread of finished indices, on whatever worker is free
            phase = "det"
            done_idx = sorted(results.keys())
            want = 300 if tier == "quick" else 2000
            stride = max(1, len(done_idx) // want)
            det_sample = done_idx[::stride][:want]
            det_pending = list(reversed(det_sample))
            # shift the assignment so that a run lands on another worker than the first time
            for w in active: refill(w)
            if not det_pending and all(not w.queue for w in active): pass
        if phase == "det" and not det_pending and all(not w.queue for w in active):
            for w in active:
                if not w.quitting: w.quit()
        fds = [w.fd for w in active]
        r, _, _ = select.select(fds, [], [], 1.0)
        for w in active:
            if w.fd not in r: continue
            try: data = os.read(w.fd, 1 << 16)
            except OSError: data = b""
            if not data:
                w.dead = True
                w.p.wait()
                # drain what was still buffered before the end of file
                while b"\n" in w.buf:
                    ln, w.buf = w.buf.split(b"\n", 1)
                    handle_line(w, ln.decode("ascii", "replace"))
                if not w.quitting:
                    # the worker died: the run it had begun is the suspect; the rest of its queue is handed on.
                    # (a worker that announced "recycle" retired on purpose: nothing is suspect)
                    bad = None if w.recycling else w.begun
                    rest = [i for i in w.queue if i != bad]
                    if bad is not None: crashed.append(bad)
                    nw = Worker(w.k, engine, tier, seed)
                    errpaths.append(nw.errpath)
                    workers[workers.index(w)] = nw
                    if rest: nw.send(rest)
                    refill(nw)
                continue
            w.buf += data
            while b"\n" in w.buf:
                ln, w.buf = w.buf.split(b"\n", 1)
                handle_line(w, ln.decode("ascii", "replace"))
            refill(w)
        if phase == "det" and all(w.dead or (w.quitting and not w.queue) for w in workers) and all(w.dead for w in workers):
            break
    wall_runs = time.time() - t_runs0

    # ---- classify runs that killed a worker ---------------------------------
    harness_problem = []
    soft_problem = []      # worker deaths that could not be pinned on one run: only fatal when nothing else was found
    # a run that ran into the worker's alarm is a hang by definition; it is not executed again just to be named
    for idx in sorted(set(hung)):
        results[idx] = ("0" * 16, False, prop + ":hang", 0, True, 0)
    crashed = [i for i in crashed if i not in set(hung)]
    unclassified = 0
    if len(set(crashed)) > 60:
        unclassified = len(set(crashed)) - 60
        log("note: %d runs killed a worker; the first 60 are classified one by one" % len(set(crashed)))
    for idx in sorted(set(crashed))[:60]:
        p = subprocess.run(["build/" + engine, "--run-index", str(idx), "--tier", tier, "--seed", str(seed)],
                           stdout=subprocess.PIPE, stderr=subprocess.PIPE, text=True)
        m = re.search(r"^end (\d+) (\S+) (\S+) (\S+) (-?\d+)", p.stdout, re.M)
        if not m:
            soft_problem.append("run %d killed a worker and could not be classified" % idx); continue
        ok = m.group(3) == "ok"
        if ok:
            # (memory damaged by an EARLIER run of that worker can surface here: seen only on trees that are broken anyway)
            soft_problem.append("run %d killed a worker but passes in isolation" % idx); continue
        results[idx] = (m.group(2), False, m.group(4), int(m.group(5)), True, 0)

    # ---- runs that did not repeat: harness trouble, or the subject reading what the plan does not determine? -----
    address_dependent = []
    still_bad = []
    for (idx, h1, h2) in det_mismatch[:12]:
        pp = "replays/tmp/%s-det-%d.plan" % (prop, idx)
        os.makedirs("replays/tmp", exist_ok=True)
        subprocess.run(["build/" + engine, "--gen", str(idx), "--tier", tier, "--seed", str(seed), "--out", pp], check=False)
        pr = subprocess.run(["build/" + engine, "--aslr-probe", pp], stdout=subprocess.PIPE, stderr=subprocess.PIPE, text=True).stdout
        if "stable-without-aslr=yes differs-with-aslr=yes" in pr:
            address_dependent.append(idx)
        else:
            still_bad.append((idx, h1, h2))
    det_mismatch_total = len(det_mismatch)
    det_mismatch = still_bad + det_mismatch[12:]

    # ---- violations: one representative (the shortest plan) per class ---------
    by_class = {}
    for idx in address_dependent:
        by_class.setdefault(prop + ":address-dependent-output", []).append((results[idx][5] if idx in results else 10**6, idx))
    for idx, r in results.items():
        if not r[1]:
            c = by_class.setdefault(r[2], [])
            c.append((r[5] if r[5] else 10**6, idx))
    known = []
    kf_path = os.path.join(ROOT, "known_findings.json")
    if os.path.exists(kf_path):
        known = json.load(open(kf_path)).get("findings", [])
    new_violations = []
    known_hits = []
    # every listed (status=known) finding is replayed from its committed replay file, whatever this batch sampled
    announced = set()
    for k in known:
        if k.get("property") != prop or k.get("status") != "known" or not k.get("replay_file"): continue
        r = subprocess.run(["build/" + engine, "--replay", k["replay_file"]], stdout=subprocess.PIPE, stderr=subprocess.PIPE, text=True)
        m = re.search(r"^replay viol class=(\S+)", r.stdout, re.M)
        if r.returncode == 1 and m and m.group(1) == k["class"]:
            log("KNOWN-FINDING: property=%s %s [class %s, replay %s]" % (prop, k.get("what", ""), k["class"], k["replay_file"]))
            announced.add(k["class"])
            known_hits.append(dict(cls=k["class"], count=0, what=k.get("what", ""), replay=k["replay_file"]))
        else:
            log("note: listed finding %s no longer reproduces from %s (%s)" % (k["class"], k["replay_file"], r.stdout.strip()[-160:]))
    # a repaired defect suppresses nothing: where its replay file was kept, it is replayed too, and its return is a violation
    for k in known:
        if k.get("property") != prop or k.get("status") != "fixed" or not str(k.get("replay_file", "")).endswith(".json"): continue
        if not os.path.exists(k["replay_file"]): continue
        r = subprocess.run(["build/" + engine, "--replay", k["replay_file"]], stdout=subprocess.PIPE, stderr=subprocess.PIPE, text=True)
        m = re.search(r"^replay viol class=(\S+)", r.stdout, re.M)
        if r.returncode == 1 and m:
            new_violations.append(dict(cls=m.group(1), count=0, replay=k["replay_file"], note="a repaired defect is back (%s)" % k.get("commit", "?"), steps=None))
    os.makedirs("replays", exist_ok=True)
    os.makedirs("replays/tmp", exist_ok=True)
    classes = sorted(by_class.items(), key=lambda kv: (-len(kv[1]), kv[0]))
    if args.list_classes:
        for cls, lst in classes:
            log("CLASS %6d  %s  (e.g. run %d)" % (len(lst), cls, min(lst)[1]))
        sys.exit(0)
    for cls, lst in classes[: args.max_classes]:
        lst.sort()
        nsteps, idx = lst[0]
        tag = hashlib.sha1(cls.encode()).hexdigest()[:10]
        plan_path = "replays/tmp/%s-%s.plan" % (prop, tag)
        rp = "replays/%s-%s.json" % (prop, tag)
        subprocess.run(["build/" + engine, "--gen", str(idx), "--tier", tier, "--seed", str(seed), "--out", plan_path], check=False)
        sh = subprocess.run(["build/" + engine, "--shrink", plan_path, "--class", cls, "--out", rp],
                            stdout=subprocess.PIPE, stderr=subprocess.PIPE, text=True)
        log(sh.stdout.strip())
        if sh.returncode != 0:
            harness_problem.append("class %s (run %d): confirmation/shrinking failed: %s" % (cls, idx, sh.stdout.strip()[-300:]))
            continue
        rpl = subprocess.run(["build/" + engine, "--replay", rp], stdout=subprocess.PIPE, stderr=subprocess.PIPE, text=True)
        if rpl.returncode != 1 or "reproduced=exact" not in rpl.stdout:
            harness_problem.append("class %s: fresh-process replay did not reproduce: %s" % (cls, rpl.stdout.strip()[-300:]))
            continue
        entry = next((k for k in known if k.get("property") == prop and k.get("class") == cls and k.get("status") == "known"), None)
        rj = json.load(open(rp))
        if entry:
            known_hits.append(dict(cls=cls, count=len(lst), what=entry.get("what", ""), replay=rp))
            if cls not in announced:
                log("KNOWN-FINDING: property=%s %s [class %s, %d runs, replay %s]" % (prop, entry.get("what", ""), cls, len(lst), rp))
                announced.add(cls)
        else:
            new_violations.append(dict(cls=cls, count=len(lst), replay=rp, note=rj.get("note", ""), steps=rj.get("steps")))
    skipped_classes = [c for c, _ in classes[args.max_classes:]]
    # classes beyond the cap are still violations: report them with an unshrunk replay
    for cls, lst in classes[args.max_classes:]:
        entry = next((k for k in known if k.get("property") == prop and k.get("class") == cls and k.get("status") == "known"), None)
        if entry:
            log("KNOWN-FINDING: property=%s %s [class %s, %d runs]" % (prop, entry.get("what", ""), cls, len(lst)))
            known_hits.append(dict(cls=cls, count=len(lst), what=entry.get("what", ""), replay=None))
            continue
        lst.sort(); idx = lst[0][1]
        tag = hashlib.sha1(cls.encode()).hexdigest()[:10]
        plan_path = "replays/tmp/%s-%s.plan" % (prop, tag)
        rp = "replays/%s-%s.json" % (prop, tag)
        subprocess.run(["build/" + engine, "--gen", str(idx), "--tier", tier, "--seed", str(seed), "--out", plan_path], check=False)
        sh = subprocess.run(["build/" + engine, "--shrink", plan_path, "--class", cls, "--out", rp, "--budget", "40"],
                            stdout=subprocess.PIPE, stderr=subprocess.PIPE, text=True)
        if sh.returncode == 0:
            new_violations.append(dict(cls=cls, count=len(lst), replay=rp, note="", steps=None))
        else:
            harness_problem.append("class %s (run %d): confirmation failed" % (cls, idx))

    # ---- the emulated process boundary against real processes (C11, C13) ---------
    fidelity = None
    if engine in ("sim_io", "sim_restart"):
        fr = subprocess.run([sys.executable, "tools/fidelity.py", "24" if tier == "quick" else "240", str(seed)], stdout=subprocess.PIPE, stderr=subprocess.PIPE, text=True)
        try: fidelity = json.loads(fr.stdout.strip().splitlines()[-1])
        except Exception: fidelity = dict(cases=0, mismatches=-1, details=[fr.stdout[-300:] + fr.stderr[-300:]])
        if fidelity.get("mismatches", -1) != 0:
            harness_problem.append("emulated gama-local differs from the real process: %s" % json.dumps(fidelity)[:600])

    # ---- evidence -------------------------------------------------------------
    evals = len(results)
    nontriv_hashes = set(r[0] for r in results.values() if r[4])
    # distinct = distinct ABSTRACT runs (operation / fault kinds in order, where they landed, no numeric values), as
    # collected by the workers; a worker that died takes its set with it, so the count is conservative
    distinct_shapes = len(states.get("shape", ()))
    sample_idx = [i for i in sorted(results) if results[i][4]][:3] or sorted(results)[:3]
    samples = []
    for i in sample_idx:
        t = subprocess.run(["build/" + engine, "--gen", str(i), "--tier", tier, "--seed", str(seed)], stdout=subprocess.PIPE, text=True).stdout
        lines = t.splitlines()
        if len(lines) > 60: lines = lines[:60] + ["... (%d more lines)" % (len(lines) - 60)]
        lines = [l if len(l) < 400 else l[:400] + "...(%d bytes)" % len(l) for l in lines]
        samples.append(dict(index=i, log_hash=results[i][0], plan=lines))
    faults = {k: v for k, v in counters.items() if k.startswith("fault.")}
    probes = {k[6:]: v for k, v in counters.items() if k.startswith("probe.")}
    other = {k: v for k, v in counters.items() if not k.startswith("fault.") and not k.startswith("probe.")}
    wall = time.time() - t_start
    ubsan_counts = sanitize_counts(errpaths)
    for p in errpaths:
        try: os.unlink(p)
        except OSError: pass
    rule = {
        "C15": "one run = one seeded history (10-60 operations on a pool of up to 8 live matvec objects, each run with its own subset and weighting of operation kinds and its own heap fill pattern); a run is non-trivial when it executed at least 3 operations; distinct = distinct abstract history (sequence of operation kinds with the type and size class of the object they address, exceptions marked; no element values)",
        "C04": "one run = one seeded history of queries against one to three live solver / Adj / LocalNetwork objects, scheduled step by step among 2-4 client tasks, every answer compared with a fresh object; non-trivial when at least one history-dependent path was taken (a second query on a used object, a cache hit/miss outside the envelope, an invalidation, a reset, a min_x change or an exception survived); distinct = distinct abstract history (per step: class or algorithm, kind of query or change, regular/singular, value or exception; no indices, no numbers)",
        "C11": "indices below the enumerated count are the complete single-fault sweeps (end of stream at every byte, two-chunk split at every byte) of the swept corpus documents, followed by the complete event-sequence spaces (every pair of element open/close events over the gama-local tag alphabet in every context through main(), every single event in every context of the g3 and result alphabets; triples / pairs in the thorough tier); the rest are seeded runs (archive document with edits, event sequence, grammar-derived g3 model or gama-local network; option vector with output-file faults; chunk plan; up to 6 transport faults or mutations; writer-reader pipeline); non-trivial when at least one fault fired or the delivery was split into more than one chunk; distinct = distinct abstract run (consumer, document, and for every fault its kind and the element and lexical context it landed in; no byte offsets)",
        "C13": "one run = one history of up to four emulated gama-local processes (adjust+export, then re-read the exported file through a seeded chunk plan, three times); non-trivial when at least two rounds completed; distinct = distinct (network, algorithm, sequence of workload edit kinds)",
    }[prop]
    cov = dict(
        evaluations=evals,
        distinct_nontrivial=distinct_shapes if distinct_shapes else len(nontriv_hashes),
        distinct_log_hashes_nontrivial=len(nontriv_hashes),
        rule=rule,
        samples=samples,
        exhaustive=False,
        enumerated_runs=min(E, evals),
        seeded_runs=max(0, evals - E),
        runs_per_hour=int(evals / wall_runs * 3600) if wall_runs > 0 else 0,
        seeds_per_hour=int(evals / wall_runs * 3600) if wall_runs > 0 else 0,
        logical_time=dict(note="Gama reads no clock; simulated time is logical", **{k: v for k, v in other.items() if k in ("ops", "bytes_delivered", "chunks", "io.bytes", "io.chunks", "rounds", "queries", "processes")}),
        fault_kinds_fired=faults,
        counters=other,
        probe_hits=probes,
        distinct_states={k: len(v) for k, v in states.items()},
        determinism=dict(sample=det_checked, mismatches=det_mismatch_total, explained_as_address_dependence=len(address_dependent), note="sampled runs executed a second time (other position in the batch, usually another worker process) and log hashes compared"),
        worker_deaths=len(crashed),
        hangs=len(hung),
        violation_classes=sorted(by_class.keys()),
        known_findings_matched=known_hits,
        ubsan_non_gating_reports=ubsan_counts,
        components=REAL_STUB,
        process_emulation_fidelity=fidelity if fidelity is not None else "not applicable: this engine calls library code directly",
        workers=args.workers,
        build_s=round(build_s, 1),
    )
    if prop == "C11":
        cov["exhaustive_subspace"] = "single end-of-stream and single split point at every byte of the swept documents, and every sequence of 2 (gama-local alphabet) / 1 (g3, result alphabets) element events in every listed context (3 / 2 in the thorough tier): complete; everything else sampled"
    ev = dict(property_id=prop, tier=tier, seed=seed, level=cfg["level"], coverage=cov,
              assumptions=[
                  "sanitizer build (-O1, ASan+UBSan, NDEBUG as in the pinned CMake configuration) behaves like the shipped build apart from the instrumentation",
                  "expat and libstdc++ are trusted and run uninstrumented",
                  "a clean batch is evidence, not proof: the history / fault space is sampled (seeded), not enumerated, except where stated",
              ],
              wall_s=round(wall, 2), violations=len(new_violations))
    if not args.no_evidence:
        os.makedirs("evidence", exist_ok=True)
        with open("evidence/%s.json" % prop, "w") as f:
            json.dump(ev, f, indent=1)
            f.write("\n")

    log("%s %s: %d runs (%d enumerated) in %.1fs, %d distinct non-trivial, %d violation classes (%d known), determinism %d/%d ok, deaths %d" % (
        prop, tier, evals, min(E, evals), wall_runs, len(nontriv_hashes), len(by_class), len(known_hits), det_checked - len(det_mismatch), det_checked, len(crashed)))

    for v in new_violations:
        log("VIOLATION property=%s replay=%s" % (prop, os.path.join(ROOT, v["replay"])))
        log("  class=%s runs=%d steps=%s note=%s" % (v["cls"], v["count"], v["steps"], v["note"][:300]))
    if det_mismatch:
        for idx, h1, h2 in det_mismatch[:5]:
            log("HARNESS: run %d is not deterministic (%s vs %s)" % (idx, h1, h2))
        sys.exit(2)
    if harness_problem:
        for h in harness_problem + soft_problem: log("HARNESS: " + h)
        sys.exit(2)
    if soft_problem:
        for h in soft_problem: log(("note: " if new_violations else "HARNESS: ") + h)
        if not new_violations: sys.exit(2)
    if evals == 0:
        log("HARNESS: no runs executed"); sys.exit(2)
    if new_violations:
        sys.exit(1)
    sys.exit(0)


if __name__ == "__main__":
    main()

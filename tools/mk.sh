#!/bin/bash
# make, showing only real diagnostics
cd "$(dirname "$0")/.."
make -j16 "$@" 2>&1 | grep -E "^[^ ]+:[0-9]+:[0-9]+: (fatal )?error|undefined reference|multiple definition|make: \*\*\*" -A3 | head -40

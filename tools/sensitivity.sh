#!/bin/bash
# Sensitivity of the checks (DESIGN.md 2.5): every patch under mutants/ (hand-written) and seeded/*/patch.diff
# (written by independent sub-agents) breaks one claimed property while compiling and passing the pinned suite.
# Each is applied to /repo, the property's quick check is run and must report a VIOLATION, and the patch is undone
# straight afterwards.  Not a registered command; its results are quoted in DESIGN.md.
#
#   tools/sensitivity.sh [pattern]        e.g.  tools/sensitivity.sh m1    or   tools/sensitivity.sh seeded
cd "$(dirname "$0")/.."
pat="${1:-}"
out=build/sensitivity.txt
[ -n "$SENS_APPEND" ] || : > "$out"
if [ -n "$(git -C /repo status --porcelain --untracked-files=no)" ]; then echo "/repo has local changes; refusing"; exit 2; fi
for f in mutants/*.patch seeded/*/patch.diff; do
  [ -f "$f" ] || continue
  case "$f" in *"$pat"*) ;; *) continue;; esac
  prop=$(grep -m1 -o 'C[0-9][0-9]' <<< "$(head -3 "$f"; [ -f "$(dirname "$f")/meta.json" ] && grep -o '"property"[^,]*' "$(dirname "$f")/meta.json")" | head -1)
  [ -n "$prop" ] || { echo "$f: no property" | tee -a "$out"; continue; }
  if ! git -C /repo apply "$f" 2>/dev/null; then
    # patches with a comment header
    if ! grep -v '^#' "$f" | git -C /repo apply 2>/dev/null; then echo "$f: does not apply" | tee -a "$out"; continue; fi
  fi
  t0=$(date +%s)
  VERIF_SEED=${VERIF_SEED:-1} timeout 1500 python3 tools/run_check.py "$prop" --tier quick --no-evidence > build/sens.log 2>&1
  rc=$?
  t1=$(date +%s)
  git -C /repo checkout -- .
  git -C /repo clean -fdq -- lib src 2>/dev/null
  v=$(grep -c '^VIOLATION' build/sens.log)
  cls=$(grep -A1 '^VIOLATION' build/sens.log | grep -o 'class=[^ ]*' | sort -u | tr '\n' ' ')
  echo "$f  $prop  exit=$rc  violations=$v  $((t1-t0))s  $cls" | tee -a "$out"
done
rm -f replays/*.json; rm -rf replays/tmp
make -j16 > /dev/null 2>&1     # back to the unchanged tree

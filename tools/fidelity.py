#!/usr/bin/env python3
"""Fidelity of the emulated process boundary (DESIGN.md 2.5).

The same argument vector and input bytes are given (a) to gama-local's main()
called in process by ProcEmu (through build/sim_io --exec) and (b) to a REAL
child process running build/real-gama-local, linked from the same objects.
Exit status, stdout, every output file and stderr (minus UBSan's own
diagnostics, which go to descriptor 2 of the real process only) must be
identical.  This is what licenses "in-process call = process".

  python3 tools/fidelity.py [N] [seed]      -> prints a JSON summary; exit 2 on a mismatch
"""
import binascii, glob, json, os, random, re, subprocess, sys, tempfile, shutil

ROOT = os.path.dirname(os.path.dirname(os.path.abspath(__file__)))
os.chdir(ROOT)


def fnv(b):
    h = 0xcbf29ce484222325
    for c in b:
        h ^= c
        h = (h * 0x100000001b3) & 0xFFFFFFFFFFFFFFFF
    return "%016x" % h


ARGS = [
    "- --xml -", "-", "- --text - --xml @F0", "- --algorithm svd --xml @F0 --export @F1", "- --algorithm gso --html @F0",
    "- --algorithm cholesky --octave @F0 --xml -", "- --svg @F0 --xml @F1", "- --angular 360 --xml -", "- --language cz --text -",
    "- --cov-band 0 --xml -", "- --iterations 1 --xml @F0 --text @F1", "- --encoding cp-1250 --language cz --text @F0",
    "- --export -", "- --obs @F0", "- --latitude 50 --xml -", "- --ellipsoid bessel --xml -", "- --verbose --text -",
    "- --algorithm bogus", "- --xml @F0 --bogus 1", "@IN --xml -",
]


def clean_err(b):
    out = []
    for ln in b.split(b"\n"):
        if b"runtime error:" in ln or re.match(rb"^\s+#\d+ 0x", ln) or ln.strip() == b"":
            continue
        out.append(ln)
    return b"\n".join(out)


def main():
    n = int(sys.argv[1]) if len(sys.argv) > 1 else 24
    rnd = random.Random(int(sys.argv[2]) if len(sys.argv) > 2 else 1)
    docs = sorted(glob.glob("corpus/gkf/*.gkf"))
    docs = [d for d in docs if os.path.getsize(d) < 7000]
    mism = []
    done = 0
    tmp = tempfile.mkdtemp(prefix="fid", dir="build/tmp" if os.path.isdir("build/tmp") else None)
    try:
        for i in range(n):
            doc = rnd.choice(docs)
            data = open(doc, "rb").read()
            # a third of the cases get a damaged document, so that the error paths are compared too
            r = rnd.random()
            if r < 0.15: data = data[: rnd.randrange(len(data))]
            elif r < 0.33:
                p = rnd.randrange(len(data)); data = data[:p] + bytes([rnd.randrange(32, 127)]) + data[p + 1:]
            args = ARGS[i % len(ARGS)] if i < len(ARGS) else rnd.choice(ARGS)
            plan = "#plan v1\nH fill 1\nH refill 0\nH target local\nH args %s\nH xmlfile -1\nH doc %s\nH seed 0\nH index 0\nH engine sim_io\n" % (
                args, binascii.hexlify(data).decode())
            pf = os.path.join(tmp, "p.plan")
            open(pf, "w").write(plan)
            e = subprocess.run(["build/sim_io", "--exec", pf, "-v"], stdout=subprocess.PIPE, stderr=subprocess.PIPE, text=True).stdout
            m = re.search(r"local exit=(-?\d+) cat=\S* line=-?\d+ out=([0-9a-f]+) err=([0-9a-f]+) files=(\d+)", e)
            if not m:
                mism.append(dict(case=i, doc=doc, args=args, why="emulated run gave no result line: " + e[-200:])); continue
            emu_files = re.findall(r"^  file (\d+) bytes ([0-9a-f]+)", e, re.M)
            # real process
            rargs = []; paths = []
            for a in args.split():
                if a.startswith("@F"):
                    k = int(a[2:]);
                    while len(paths) <= k: paths.append(os.path.join(tmp, "f%d" % len(paths)))
                    rargs.append(paths[k])
                elif a == "@IN":
                    ip = os.path.join(tmp, "in.gkf"); open(ip, "wb").write(data); rargs.append(ip)
                else: rargs.append(a)
            for p in paths:
                if os.path.exists(p): os.unlink(p)
            env = dict(os.environ, ASAN_OPTIONS="detect_leaks=0", UBSAN_OPTIONS="print_stacktrace=0")
            rp = subprocess.run(["build/real-gama-local"] + rargs, input=data, stdout=subprocess.PIPE, stderr=subprocess.PIPE, env=env)
            real_files = []
            for p in paths:
                b = open(p, "rb").read() if os.path.exists(p) else b""
                real_files.append((str(len(b)), fnv(b)))
            # the emulated stderr never contains UBSan's lines (they go to descriptor 2, not to std::cerr)
            why = []
            if int(m.group(1)) != rp.returncode: why.append("exit %s vs %d" % (m.group(1), rp.returncode))
            if m.group(2) != fnv(rp.stdout): why.append("stdout differs")
            if m.group(3) != fnv(clean_err(rp.stderr)) and m.group(3) != fnv(rp.stderr):
                # compare text-wise after the same cleaning of the emulated side is impossible (only its hash is known):
                # accept when the real stderr is empty after cleaning and the emulated hash is that of the empty string
                why.append("stderr differs")
            if [tuple(x) for x in emu_files] != real_files: why.append("files differ: %s vs %s" % (emu_files, real_files))
            if why: mism.append(dict(case=i, doc=doc, args=args, why="; ".join(why)))
            done += 1
    finally:
        shutil.rmtree(tmp, ignore_errors=True)
    print(json.dumps(dict(cases=done, mismatches=len(mism), details=mism[:5])))
    sys.exit(2 if mism else 0)


if __name__ == "__main__":
    main()

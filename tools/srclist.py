#!/usr/bin/env python3
"""Emit a make fragment listing the library sources CMakeLists.txt builds.

Every token ending in .cpp under lib/ inside the SRC_GAMA block is taken, so a
change under test that adds or removes a library file is followed.
"""
import re, sys, os
repo = sys.argv[1] if len(sys.argv) > 1 else "/repo"
txt = open(os.path.join(repo, "CMakeLists.txt"), encoding="utf-8", errors="replace").read()
m = re.search(r"set\(SRC_GAMA(.*?)\n\)", txt, re.S)
block = m.group(1) if m else txt
srcs = []
for tok in re.findall(r"[^\s()]+\.cpp", block):
    if tok.startswith("lib/") and os.path.exists(os.path.join(repo, tok)) and tok not in srcs:
        srcs.append(tok)
print("GAMA_LIB_SRCS := " + " ".join(srcs))

#!/usr/bin/env python3
"""One-off helper: enumerate the classes of the known DataParser finding (optional_* data handlers judge every
piece of character data on its own) by inserting a line break after every tag of every g3 corpus document, and keep
one shrunk replay per class under known/.  Not part of any check."""
import binascii, glob, os, subprocess, json, re
os.chdir(os.path.dirname(os.path.dirname(os.path.abspath(__file__))))
seen = {}
for doc in sorted(glob.glob("corpus/g3/*.xml")):
    data = open(doc, "rb").read()
    ntags = data.count(b"<")
    for k in range(ntags):
        plan = "#plan v1\nH fill 1\nH refill 0\nH target data\nH name %s\nH doc %s\nH validbase 1\nH seed 0\nH index 0\nH engine sim_io\nS vw %d 0 0\n" % (
            os.path.basename(doc), binascii.hexlify(data).decode(), k)
        open("build/fam.plan", "w").write(plan)
        r = subprocess.run(["build/sim_io", "--exec", "build/fam.plan"], stdout=subprocess.PIPE, stderr=subprocess.PIPE, text=True)
        m = re.search(r"result viol class=(\S+)", r.stdout)
        if m and m.group(1) not in seen:
            seen[m.group(1)] = (doc, k)
            out = "known/C11-dataparser-%s.json" % m.group(1).split(":")[-1]
            subprocess.run(["build/sim_io", "--shrink", "build/fam.plan", "--class", m.group(1), "--out", out], stdout=subprocess.PIPE)
            print(m.group(1), doc, k, out)

// Deterministic-simulation core shared by the four engines (DESIGN.md section 2).
//
// One 64-bit seed decides a run: seed -> Plan (explicit operations and faults)
// -> execution against the real Gama code -> Verdict.  Nothing here reads a
// clock or draws from the PRNG while logging.
#ifndef VERIF_SIM_SIM_H
#define VERIF_SIM_SIM_H

#include <cstdint>
#include <cstdio>
#include <cstdarg>
#include <cstring>
#include <string>
#include <vector>
#include <map>
#include <set>
#include <streambuf>
#include <functional>

namespace sim {

// ---------------------------------------------------------------- PRNG ------
inline uint64_t splitmix64(uint64_t& s)
{
  uint64_t z = (s += 0x9E3779B97F4A7C15ull);
  z = (z ^ (z >> 30)) * 0xBF58476D1CE4E5B9ull;
  z = (z ^ (z >> 27)) * 0x94D049BB133111EBull;
  return z ^ (z >> 31);
}

// seed of run `index` in batch VERIF_SEED
inline uint64_t run_seed(uint64_t verif_seed, uint64_t index)
{
  uint64_t s = (verif_seed << 32) + index;
  return splitmix64(s);
}

struct Rng {
  uint64_t s[4];
  explicit Rng(uint64_t seed = 1) { reseed(seed); }
  void reseed(uint64_t seed) { for (auto& x : s) x = splitmix64(seed); }
  static uint64_t rotl(uint64_t x, int k) { return (x << k) | (x >> (64 - k)); }
  uint64_t next()
  {
    const uint64_t r = rotl(s[1] * 5, 7) * 9, t = s[1] << 17;
    s[2] ^= s[0]; s[3] ^= s[1]; s[1] ^= s[2]; s[0] ^= s[3];
    s[2] ^= t; s[3] = rotl(s[3], 45);
    return r;
  }
  // uniform in [0,n)  (n > 0)
  uint64_t below(uint64_t n) { return n ? next() % n : 0; }
  // uniform integer in [lo,hi]
  long long range(long long lo, long long hi)
  { return hi <= lo ? lo : lo + (long long)below((uint64_t)(hi - lo + 1)); }
  bool chance(unsigned num, unsigned den) { return below(den) < num; }
  double uniform() { return (next() >> 11) * (1.0 / 9007199254740992.0); }
  template <class T> const T& pick(const std::vector<T>& v) { return v[below(v.size())]; }
};

// ------------------------------------------------------------ event log -----
// FNV-1a 64 over every logged line; the hash is the identity of a run.
struct EventLog {
  uint64_t hash = 0xcbf29ce484222325ull;
  bool keep = false;          // keep text (replay / --exec -v)
  std::string text;
  long lines = 0;
  void raw(const char* p, size_t n)
  {
    for (size_t i = 0; i < n; i++) { hash ^= (unsigned char)p[i]; hash *= 0x100000001b3ull; }
    if (keep) text.append(p, n);
  }
  void line(const char* fmt, ...) __attribute__((format(printf, 2, 3)));
  void str(const std::string& s) { raw(s.data(), s.size()); raw("\n", 1); lines++; }
};

// ------------------------------------------------------------------ plan ----
// A step is an operation name, small integer arguments (interpreted modulo
// whatever is valid in the state they meet, so that a plan with steps removed
// is still a valid plan) and an optional string payload.
struct Step {
  std::string op;
  std::vector<long long> a;
  std::string s;              // payload, serialised as hex
  long long arg(size_t i, long long dflt = 0) const { return i < a.size() ? a[i] : dflt; }
};

struct Plan {
  std::vector<std::pair<std::string, std::string>> hdr;
  std::vector<Step> steps;

  std::string get(const std::string& k, const std::string& d = "") const;
  long long   geti(const std::string& k, long long d = 0) const;
  void        set(const std::string& k, const std::string& v);
  void        seti(const std::string& k, long long v);
  std::string serialize() const;
  static bool parse(const std::string& text, Plan& out);
};

std::string to_hex(const std::string& bytes);
std::string from_hex(const std::string& hex);

// --------------------------------------------------------------- verdict ----
struct Verdict {
  bool ok = true;
  std::string cls;            // stable class string, e.g. C04:value-differs:q_xx:envelope
  int step = -1;
  std::string note;
  static Verdict fail(const std::string& c, int step, const std::string& note = "")
  { Verdict v; v.ok = false; v.cls = c; v.step = step; v.note = note; return v; }
};

// ----------------------------------------------------------------- stats ----
// Counters are summed over runs by the parent; state keys are unioned.
struct Stats {
  std::map<std::string, long long> c;
  std::map<std::string, std::set<uint64_t>> states;
  bool nontrivial = false;
  std::string shape;            // abstract form of the run (operation / fault kinds in order, no numeric values)
  void add(const std::string& k, long long n = 1) { c[k] += n; }
  void state(const std::string& set, uint64_t key) { states[set].insert(key); }
  void state(const std::string& set, const std::string& key);
};
uint64_t fnv(const std::string& s);

// -------------------------------------------------------- allocator seam ----
// Fresh blocks from operator new are filled with the run's pattern.
enum Fill { FILL_NONE = 0, FILL_00 = 1, FILL_FF = 2, FILL_A5 = 3, FILL_PRNG = 4 };
void set_fill(int mode, uint64_t seed = 0);
int  get_fill();
extern "C" long long sim_alloc_count();

// --------------------------------------------------------- probe counters ----
// GNU_GAMA_SIM_PROBE(site) in /repo ends up here (weak hook, guard on only).
void probes_reset();
const std::map<std::string, long long>& probes();
long long probe(const std::string& site);

// ---------------------------------------------------------- byte stream -----
// The transport of the simulation: delivers the planned chunks, then the
// planned end (clean end-of-stream, or an error thrown from underflow).
class SimStreamBuf : public std::streambuf {
public:
  struct Chunk { size_t len; };
  SimStreamBuf() {}
  void load(const std::string& bytes, const std::vector<size_t>& chunk_lens, bool error_at_end);
  long reads_after_end() const { return reads_after_end_; }
  long underflows() const { return underflows_; }
  size_t delivered() const { return pos_; }
  bool ended() const { return ended_; }
protected:
  int_type underflow() override;
private:
  std::string data_;
  std::vector<size_t> lens_;
  size_t next_ = 0, pos_ = 0;
  bool error_at_end_ = false, ended_ = false;
  long reads_after_end_ = 0, underflows_ = 0;
};

struct SimStreamError { };   // thrown by underflow for a transport error

// --------------------------------------------------------------- engine -----
struct Engine {
  virtual ~Engine() {}
  virtual const char* name() const = 0;         // sim_hist ...
  virtual const char* property() const = 0;     // C04 ...
  // seed -> explicit plan.  `tier` may scale sizes.
  virtual Plan generate(uint64_t seed, uint64_t index, const std::string& tier) = 0;
  // run the plan against the real code; append to log; fill stats.
  virtual Verdict execute(const Plan& plan, EventLog& log, Stats& st) = 0;
  // engine-specific simplifications of a failing plan (besides dropping steps
  // and shrinking integer arguments, which the core does itself)
  virtual std::vector<Plan> simplify(const Plan&) { return {}; }
  // optional: called once at start of a worker
  virtual void init(const std::string& /*tier*/) {}
  // optional: enumerated (non-random) part; index space [0,count)
  virtual uint64_t enumerated_count(const std::string& /*tier*/) { return 0; }
  // optional: a worker process retires itself after this many runs (engines whose subject leaks by design)
  virtual long recycle_after() { return 0; }
};

int driver_main(int argc, char** argv, Engine& e);

// helpers for engines
std::string fmt(const char* f, ...) __attribute__((format(printf, 1, 2)));
std::string hexfloat(double x);
bool read_file(const std::string& path, std::string& out);
bool write_file(const std::string& path, const std::string& data);

} // namespace sim
#endif

// Simulator core: plans, event log, stream transport, worker protocol,
// isolated (forked) execution, shrinking, replay files.
#include "sim/sim.h"

#include <cstdlib>
#include <cerrno>
#include <csignal>
#include <cmath>
#include <iostream>
#include <fstream>
#include <sstream>
#include <algorithm>
#include <unistd.h>
#include <fcntl.h>
#include <sys/wait.h>
#include <sys/stat.h>
#include <sys/time.h>

namespace sim {

// ------------------------------------------------------------- helpers ------
std::string fmt(const char* f, ...)
{
  char buf[4096];
  va_list ap; va_start(ap, f);
  int n = vsnprintf(buf, sizeof buf, f, ap);
  va_end(ap);
  if (n < 0) return "";
  if ((size_t)n < sizeof buf) return std::string(buf, n);
  std::string s(n + 1, '\0');
  va_start(ap, f); vsnprintf(&s[0], s.size(), f, ap); va_end(ap);
  s.resize(n);
  return s;
}

std::string hexfloat(double x)
{
  if (std::isnan(x)) return "nan";          // sign/payload of NaN is not an observable
  char b[64]; snprintf(b, sizeof b, "%a", x); return b;
}

void EventLog::line(const char* f, ...)
{
  char buf[2048];
  va_list ap; va_start(ap, f);
  int n = vsnprintf(buf, sizeof buf, f, ap);
  va_end(ap);
  if (n < 0) n = 0;
  if ((size_t)n >= sizeof buf) n = sizeof buf - 1;
  raw(buf, n); raw("\n", 1); lines++;
}

uint64_t fnv(const std::string& s)
{
  uint64_t h = 0xcbf29ce484222325ull;
  for (unsigned char c : s) { h ^= c; h *= 0x100000001b3ull; }
  return h;
}
void Stats::state(const std::string& set, const std::string& key) { states[set].insert(fnv(key)); }

bool read_file(const std::string& path, std::string& out)
{
  FILE* f = fopen(path.c_str(), "rb"); if (!f) return false;
  out.clear(); char b[65536]; size_t n;
  while ((n = fread(b, 1, sizeof b, f)) > 0) out.append(b, n);
  fclose(f); return true;
}
bool write_file(const std::string& path, const std::string& d)
{
  FILE* f = fopen(path.c_str(), "wb"); if (!f) return false;
  size_t n = fwrite(d.data(), 1, d.size(), f); fclose(f); return n == d.size();
}

std::string to_hex(const std::string& b)
{
  static const char* H = "0123456789abcdef";
  std::string r; r.reserve(b.size() * 2);
  for (unsigned char c : b) { r += H[c >> 4]; r += H[c & 15]; }
  return r;
}
std::string from_hex(const std::string& h)
{
  auto v = [](char c) { return c >= '0' && c <= '9' ? c - '0' : c >= 'a' && c <= 'f' ? c - 'a' + 10 : c >= 'A' && c <= 'F' ? c - 'A' + 10 : 0; };
  std::string r; r.reserve(h.size() / 2);
  for (size_t i = 0; i + 1 < h.size(); i += 2) r += (char)(v(h[i]) * 16 + v(h[i + 1]));
  return r;
}

// ---------------------------------------------------------------- plan ------
std::string Plan::get(const std::string& k, const std::string& d) const
{ for (auto& p : hdr) if (p.first == k) return p.second; return d; }
long long Plan::geti(const std::string& k, long long d) const
{ for (auto& p : hdr) if (p.first == k) return atoll(p.second.c_str()); return d; }
void Plan::set(const std::string& k, const std::string& v)
{ for (auto& p : hdr) if (p.first == k) { p.second = v; return; } hdr.emplace_back(k, v); }
void Plan::seti(const std::string& k, long long v) { set(k, std::to_string(v)); }

std::string Plan::serialize() const
{
  std::string s = "#plan v1\n";
  for (auto& p : hdr) s += "H " + p.first + " " + p.second + "\n";
  for (auto& st : steps) {
    s += "S " + st.op;
    for (auto a : st.a) s += " " + std::to_string(a);
    if (!st.s.empty()) s += " | " + to_hex(st.s);
    s += "\n";
  }
  return s;
}

bool Plan::parse(const std::string& text, Plan& out)
{
  out = Plan();
  std::istringstream in(text);
  std::string ln;
  while (std::getline(in, ln)) {
    if (ln.empty() || ln[0] == '#') continue;
    if (ln.size() < 3) continue;
    if (ln[0] == 'H' && ln[1] == ' ') {
      size_t sp = ln.find(' ', 2);
      std::string k = ln.substr(2, sp == std::string::npos ? std::string::npos : sp - 2);
      std::string v = sp == std::string::npos ? "" : ln.substr(sp + 1);
      out.hdr.emplace_back(k, v);
    } else if (ln[0] == 'S' && ln[1] == ' ') {
      Step st;
      std::string body = ln.substr(2), payload;
      size_t bar = body.find(" | ");
      if (bar != std::string::npos) { payload = body.substr(bar + 3); body = body.substr(0, bar); }
      std::istringstream b(body);
      b >> st.op;
      long long x; while (b >> x) st.a.push_back(x);
      st.s = from_hex(payload);
      out.steps.push_back(st);
    } else return false;
  }
  return true;
}

// -------------------------------------------------------------- probes ------
static std::map<std::string, long long> g_probes;
void probes_reset() { g_probes.clear(); }
const std::map<std::string, long long>& probes() { return g_probes; }
long long probe(const std::string& s) { auto i = g_probes.find(s); return i == g_probes.end() ? 0 : i->second; }

} // namespace sim

// the hook the guarded macro in /repo calls
extern "C" void gnu_gama_verif_sim_probe(const char* site)
{
  sim::g_probes[site]++;
}

namespace sim {

// --------------------------------------------------------- SimStreamBuf -----
void SimStreamBuf::load(const std::string& bytes, const std::vector<size_t>& lens, bool err)
{
  data_ = bytes; lens_ = lens; next_ = 0; pos_ = 0; error_at_end_ = err; ended_ = false;
  reads_after_end_ = 0; underflows_ = 0;
  setg(nullptr, nullptr, nullptr);
}

SimStreamBuf::int_type SimStreamBuf::underflow()
{
  underflows_++;
  if (pos_ >= data_.size()) {
    if (ended_) reads_after_end_++;
    ended_ = true;
    if (error_at_end_) throw SimStreamError();
    return traits_type::eof();
  }
  size_t len = 0;
  while (len == 0) {                       // empty chunks are legal and skipped
    if (next_ < lens_.size()) len = lens_[next_++];
    else len = data_.size() - pos_;
    if (next_ > lens_.size() + 8) break;
  }
  if (len == 0 || len > data_.size() - pos_) len = data_.size() - pos_;
  char* b = &data_[pos_];
  setg(b, b, b + len);
  pos_ += len;
  return traits_type::to_int_type(*b);
}

// ------------------------------------------------- sanitizer report parse ---
static std::string strip_func(std::string f)
{
  // drop template arguments and parameter lists: keep Namespace::Class::fn
  std::string r; int depth = 0;
  for (char c : f) {
    if (c == '<') depth++;
    else if (c == '>') { if (depth) depth--; }
    else if (c == '(' && depth == 0) break;
    else if (!depth) r += c;
  }
  // remove return-type prefix ("void ns::f") and trailing spaces
  while (!r.empty() && r.back() == ' ') r.pop_back();
  size_t sp = r.rfind(' ');
  if (sp != std::string::npos) r = r.substr(sp + 1);
  return r;
}

// first frame located under /repo/ in the first stack trace after `from`
static std::string first_repo_frame(const std::string& t, size_t from)
{
  size_t p = from; bool in_stack = false;
  while (p < t.size()) {
    size_t e = t.find('\n', p); if (e == std::string::npos) e = t.size();
    std::string ln = t.substr(p, e - p); p = e + 1;
    size_t h = ln.find('#');
    bool frame = h != std::string::npos && ln.find(" 0x") != std::string::npos && ln.find_first_not_of(' ') == h;
    if (frame) {
      in_stack = true;
      size_t in = ln.find(" in ");
      // (VERIF_REPO: where the sources were compiled from when not /repo, e.g. a snapshot used by a background run)
      static const std::string repo_prefix = std::string(" ") + (getenv("VERIF_REPO") ? getenv("VERIF_REPO") : "/repo") + "/";
      size_t rp = ln.find(repo_prefix);
      if (in != std::string::npos && rp != std::string::npos && rp > in)
        return strip_func(ln.substr(in + 4, rp - in - 4));
      // a frame the symbolizer gave no source line for: Gama's namespaces identify it
      if (in != std::string::npos && rp == std::string::npos && ln.find("GNU_gama::", in) != std::string::npos) {
        size_t e = ln.rfind(" (/"); if (e == std::string::npos || e < in) e = ln.size();
        return strip_func(ln.substr(in + 4, e - in - 4));
      }
    } else if (in_stack) break;
  }
  return "?";
}

std::string classify_report(const std::string& t, int status)
{
  size_t a = t.find("ERROR: AddressSanitizer: ");
  if (a != std::string::npos) {
    size_t k = a + strlen("ERROR: AddressSanitizer: ");
    size_t e = k; while (e < t.size() && t[e] != ' ' && t[e] != '\n' && t[e] != ':') e++;
    std::string kind = t.substr(k, e - k);
    if (kind == "attempting") {              // "attempting double-free" / "attempting free on address which was not malloc()-ed"
      size_t e2 = t.find_first_of(" \n", e + 1); kind = t.substr(e + 1, e2 - e - 1);
    }
    return "asan:" + kind + ":" + first_repo_frame(t, a);
  }
  // last fatal UBSan report
  size_t u = t.rfind("runtime error: ");
  if (u != std::string::npos && (WIFSIGNALED(status) || (WIFEXITED(status) && WEXITSTATUS(status) != 0))) {
    size_t e = t.find('\n', u);
    std::string msg = t.substr(u + 15, e == std::string::npos ? std::string::npos : e - u - 15);
    std::string kind = "other";
    if (msg.find("null pointer") != std::string::npos) kind = "null";
    else if (msg.find("out of bounds") != std::string::npos) kind = "bounds";
    else if (msg.find("misaligned") != std::string::npos) kind = "alignment";
    else if (msg.find("insufficient space") != std::string::npos) kind = "object-size";
    else if (msg.find("vptr") != std::string::npos || msg.find("which does not point to an object of type") != std::string::npos) kind = "vptr";
    else if (msg.find("pointer index expression") != std::string::npos || msg.find("applying") != std::string::npos) kind = "pointer-overflow";
    else if (msg.find("end of a value-returning function") != std::string::npos) kind = "return";
    else if (msg.find("unreachable") != std::string::npos) kind = "unreachable";
    return "ubsan:" + kind + ":" + first_repo_frame(t, u);
  }
  if (t.find("terminate called") != std::string::npos) return "terminate:uncaught";
  if (WIFSIGNALED(status)) return fmt("signal:%d", WTERMSIG(status));
  if (WIFEXITED(status)) return fmt("exit:%d", WEXITSTATUS(status));
  return "died";
}

// ------------------------------------------------------------- execution ----
struct Outcome {
  bool ok = true; std::string cls = "-"; int step = -1; uint64_t hash = 0; std::string note;
  Stats st; std::string logtext;
};

static int pick_other_fill(int f) { return f == FILL_FF ? FILL_A5 : FILL_FF; }

// The stack below the current frame is painted with the run's pattern before the subject runs, so that a read of a
// never-written local is (a) the same in every process and (b) different under another fill pattern: it then shows as
// fill-dependence instead of as an irreproducible run.
static void __attribute__((noinline)) paint_stack(int fill, uint64_t seed)
{
  volatile unsigned char area[384 * 1024];
  unsigned char b = fill == FILL_00 ? 0x00 : fill == FILL_FF ? 0xFF : fill == FILL_A5 ? 0xA5 : 0;
  if (fill == FILL_PRNG) { uint64_t st = seed ? seed : 1; for (size_t i = 0; i < sizeof area; i += 8) { uint64_t r = splitmix64(st); for (int k = 0; k < 8; k++) area[i + k] = (unsigned char)(r >> (8 * k)); } }
  else for (size_t i = 0; i < sizeof area; i++) area[i] = b;
  __asm__ volatile("" ::: "memory");
}

static Verdict __attribute__((noinline)) execute_shifted(Engine& e, const Plan& plan, EventLog& log, Stats& st, size_t shift)
{
  volatile char* pad = shift ? (volatile char*)__builtin_alloca(shift) : nullptr;
  if (pad) { pad[0] = 1; pad[shift - 1] = 1; }
  return e.execute(plan, log, st);
}

// Execute a plan in this process.  Catches what can be caught; a sanitizer
// abort kills the process (the caller decides whether that is acceptable).
static Outcome execute_here(Engine& e, const Plan& plan, bool keep_log)
{
  Outcome o;
  EventLog log; log.keep = keep_log;
  int fill = (int)plan.geti("fill", FILL_NONE);
  uint64_t fseed = (uint64_t)plan.geti("seed", 1);
  probes_reset();
  set_fill(fill, fseed);
  paint_stack(fill, fseed);
  Verdict v;
  try { v = execute_shifted(e, plan, log, o.st, 0); }
  catch (const std::bad_alloc&) { v = Verdict::fail(std::string(e.property()) + ":uncaught:bad_alloc", -1); }
  catch (const std::exception& x) { v = Verdict::fail(std::string(e.property()) + ":uncaught:std::exception", -1, x.what()); }
  catch (...) { v = Verdict::fail(std::string(e.property()) + ":uncaught:unknown", -1); }
  set_fill(FILL_NONE);
  for (auto& p : probes()) o.st.c["probe." + p.first] += p.second;
  o.hash = log.hash; o.logtext = log.text;
  if (v.ok && plan.geti("refill", 0)) {
    // same plan, other heap fill pattern: nothing observable may change
    EventLog log2; Stats st2;
    probes_reset();
    set_fill(pick_other_fill(fill), fseed ^ 0x5555);
    paint_stack(pick_other_fill(fill), fseed ^ 0x5555);
    Verdict v2;
    // ... and at another stack depth and heap position: stale addresses left on the stack or in reused blocks change too
    void* heap_shift = malloc(40000 + 64 * (size_t)(fseed % 97));
    try { v2 = execute_shifted(e, plan, log2, st2, 70000 + 16 * (size_t)(fseed % 61)); }
    catch (...) { v2 = Verdict::fail(std::string(e.property()) + ":uncaught:refill", -1); }
    free(heap_shift);
    set_fill(FILL_NONE);
    o.st.add("refill.runs");
    if (getenv("VERIF_DEBUG_REFILL")) fprintf(stderr, "refill: hash1 %016llx hash2 %016llx ok2 %d\n", (unsigned long long)log.hash, (unsigned long long)log2.hash, (int)v2.ok);
    if (!v2.ok) v = v2;
    else if (log2.hash != log.hash)
      v = Verdict::fail(std::string(e.property()) + ":fill-dependence", -1,
                        "same plan, different heap fill pattern, different observable log");
  }
  o.ok = v.ok; if (!v.ok) { o.cls = v.cls; o.step = v.step; o.note = v.note; }
  return o;
}

static std::string tmpdir()
{
  static std::string d;
  if (d.empty()) {
    const char* t = getenv("VERIF_TMP");
    d = t ? t : "build/tmp";
    mkdir("build", 0777); mkdir(d.c_str(), 0777);
  }
  return d;
}

// Execute in a forked child, so that a sanitizer abort or a hang becomes an
// outcome instead of killing the caller.
static Outcome execute_isolated(Engine& e, const Plan& plan, bool keep_log, int timeout_s = 30)
{
  Outcome o;
  int pfd[2]; if (pipe(pfd) != 0) { o.ok = false; o.cls = "harness:pipe"; return o; }
  std::string errf = tmpdir() + fmt("/iso-%d.err", (int)getpid());
  fflush(stdout); fflush(stderr);
  pid_t pid = fork();
  if (pid == 0) {
    close(pfd[0]);
    int fd = open(errf.c_str(), O_WRONLY | O_CREAT | O_TRUNC, 0644);
    if (fd >= 0) { dup2(fd, 2); close(fd); }
    Outcome c = execute_here(e, plan, keep_log);
    std::string msg = fmt("%d\n%s\n%d\n%016llx\n", c.ok ? 1 : 0, c.cls.c_str(), c.step, (unsigned long long)c.hash);
    std::string note = c.note; for (auto& ch : note) if (ch == '\n') ch = ' ';
    msg += note + "\n" + c.logtext;
    size_t off = 0; while (off < msg.size()) { ssize_t w = write(pfd[1], msg.data() + off, msg.size() - off); if (w <= 0) break; off += w; }
    close(pfd[1]);
    _exit(0);
  }
  close(pfd[1]);
  // read with timeout
  std::string buf; char b[65536];
  int fl = fcntl(pfd[0], F_GETFL); fcntl(pfd[0], F_SETFL, fl | O_NONBLOCK);
  struct timeval t0; gettimeofday(&t0, nullptr);
  bool timed_out = false; int status = 0; bool reaped = false;
  for (;;) {
    ssize_t n = read(pfd[0], b, sizeof b);
    if (n > 0) { buf.append(b, n); continue; }
    if (n == 0) break;
    if (errno != EAGAIN && errno != EINTR) break;
    pid_t w = waitpid(pid, &status, WNOHANG);
    if (w == pid) { reaped = true; while ((n = read(pfd[0], b, sizeof b)) > 0) buf.append(b, n); break; }
    struct timeval t1; gettimeofday(&t1, nullptr);
    if (t1.tv_sec - t0.tv_sec > timeout_s) { timed_out = true; kill(pid, SIGKILL); break; }
    usleep(500);
  }
  close(pfd[0]);
  if (!reaped) waitpid(pid, &status, 0);
  std::string err; read_file(errf, err); unlink(errf.c_str());
  if (timed_out) { o.ok = false; o.cls = std::string(e.property()) + ":hang"; o.note = "no result within timeout"; return o; }
  if (WIFEXITED(status) && WEXITSTATUS(status) == 0 && !buf.empty()) {
    std::istringstream in(buf); std::string l1, l2, l3, l4, l5;
    std::getline(in, l1); std::getline(in, l2); std::getline(in, l3); std::getline(in, l4); std::getline(in, l5);
    o.ok = l1 == "1"; o.cls = l2; o.step = atoi(l3.c_str()); o.hash = strtoull(l4.c_str(), nullptr, 16); o.note = l5;
    std::ostringstream rest; rest << in.rdbuf(); o.logtext = rest.str();
    return o;
  }
  o.ok = false;
  o.cls = std::string(e.property()) + ":" + classify_report(err, status);
  o.hash = fnv(o.cls);
  // keep the head of the sanitizer report as the note
  size_t a = err.find("ERROR: AddressSanitizer"); if (a == std::string::npos) a = err.rfind("runtime error: ");
  if (a == std::string::npos) a = 0;
  o.note = err.substr(a, 600); for (auto& ch : o.note) if (ch == '\n') ch = ' ';
  o.logtext = err.substr(a, 6000);
  return o;
}

// ------------------------------------------------ address-dependence probe ---
// A run whose observable log differs between fresh processes although the simulator decides every choice is reading
// something the plan does not determine.  With address-space randomisation switched off such a run repeats exactly;
// with it on it does not: the observable depends on ADDRESSES (never-written memory holding stale pointers, or a
// pointer printed).  The probe executes the plan in freshly exec'ed copies of this program, twice without and up to
// four times with randomisation.
#include <sys/personality.h>
static bool exec_hash_once(const std::string& planfile, bool no_aslr, std::string& hash)
{
  int pfd[2]; if (pipe(pfd) != 0) return false;
  pid_t pid = fork();
  if (pid == 0) {
    close(pfd[0]); dup2(pfd[1], 1); close(pfd[1]);
    int dn = open("/dev/null", O_WRONLY); if (dn >= 0) { dup2(dn, 2); close(dn); }
    if (no_aslr) personality(ADDR_NO_RANDOMIZE);
    execl("/proc/self/exe", "engine", "--exec-hash", planfile.c_str(), (char*)nullptr);
    _exit(127);
  }
  close(pfd[1]);
  std::string out; char b[4096]; ssize_t n;
  while ((n = read(pfd[0], b, sizeof b)) > 0) out.append(b, n);
  close(pfd[0]);
  int status = 0; waitpid(pid, &status, 0);
  size_t p = out.find("hash ");
  if (p == std::string::npos) { hash = fmt("died:%d", status); return true; }
  hash = out.substr(p + 5, out.find('\n', p) - p - 5);
  return true;
}

struct AslrProbe { bool stable_without = false, differs_with = false; std::string detail; };
static AslrProbe aslr_probe(const Plan& plan)
{
  AslrProbe r;
  std::string pf = tmpdir() + fmt("/probe-%d.plan", (int)getpid());
  write_file(pf, plan.serialize());
  std::string a, b; exec_hash_once(pf, true, a); exec_hash_once(pf, true, b);
  r.stable_without = a == b && a.compare(0, 5, "died:") != 0;
  std::string first; exec_hash_once(pf, false, first);
  for (int i = 0; i < 3 && !r.differs_with; i++) { std::string h; exec_hash_once(pf, false, h); if (h != first) r.differs_with = true; }
  r.detail = "without randomisation: " + a + " / " + b + "; with: " + first + " ...";
  unlink(pf.c_str());
  return r;
}
static bool is_address_class(const std::string& cls) { const std::string suf = ":address-dependent-output"; return cls.size() > suf.size() && cls.compare(cls.size() - suf.size(), suf.size(), suf) == 0; }

// one execution "for the purpose of class cls": the ordinary isolated run, or the probe for the address class
static Outcome execute_for_class(Engine& e, const Plan& p, const std::string& cls, bool keep_log, int timeout_s)
{
  if (!is_address_class(cls)) return execute_isolated(e, p, keep_log, timeout_s);
  Outcome o; AslrProbe pr = aslr_probe(p);
  if (pr.stable_without && pr.differs_with) { o.ok = false; o.cls = cls; o.hash = fnv(cls); o.note = "the observable log of this plan repeats exactly with address-space randomisation off and differs between processes with it on: something read depends on addresses (never-written memory or a printed pointer); " + pr.detail; o.logtext = pr.detail; }
  return o;
}

// -------------------------------------------------------------- shrinking ---
struct Shrinker {
  Engine& e; std::string cls; int budget; int runs = 0;
  bool fails(const Plan& p)
  {
    if (runs >= budget) return false;
    runs++;
    Outcome o = execute_for_class(e, p, cls, false, 12);
    return !o.ok && o.cls == cls;
  }
  Plan run(Plan p)
  {
    // 1. delta debugging over steps
    size_t n = 2;
    while (p.steps.size() >= 1 && runs < budget) {
      size_t len = p.steps.size();
      if (n > len) n = len;
      size_t chunk = (len + n - 1) / n;
      bool reduced = false;
      for (size_t start = 0; start < len && runs < budget; start += chunk) {
        Plan c = p;
        c.steps.erase(c.steps.begin() + start, c.steps.begin() + std::min(len, start + chunk));
        if (fails(c)) { p = c; reduced = true; n = std::max<size_t>(n - 1, 2); break; }
      }
      if (!reduced) { if (chunk <= 1) break; n = std::min(n * 2, len); }
    }
    // 2. engine-specific simplification, to a fixed point
    bool progress = true;
    while (progress && runs < budget) {
      progress = false;
      for (auto& c : e.simplify(p)) {
        if (runs >= budget) break;
        if (fails(c)) { p = c; progress = true; break; }
      }
    }
    // 3. smaller integer arguments
    for (size_t i = 0; i < p.steps.size() && runs < budget; i++)
      for (size_t k = 0; k < p.steps[i].a.size() && runs < budget; k++) {
        long long v = p.steps[i].a[k];
        for (long long cand : {0LL, 1LL, v / 2, v - 1}) {
          if (cand == v || cand < 0 || cand > v) continue;
          Plan c = p; c.steps[i].a[k] = cand;
          if (fails(c)) { p = c; break; }
        }
      }
    // 4. one more pass of single-step removal
    for (size_t i = p.steps.size(); i-- > 0 && runs < budget;) {
      Plan c = p; c.steps.erase(c.steps.begin() + i);
      if (fails(c)) p = c;
    }
    return p;
  }
};

// ------------------------------------------------------------ replay file ---
static std::string json_escape(const std::string& s)
{
  std::string r;
  for (unsigned char c : s) {
    if (c == '"') r += "\\\""; else if (c == '\\') r += "\\\\"; else if (c == '\n') r += "\\n";
    else if (c == '\t') r += "\\t"; else if (c == '\r') r += "\\r";
    else if (c < 0x20 || c >= 0x7f) r += fmt("\\u%04x", c); else r += (char)c;
  }
  return r;
}
static bool json_get_string(const std::string& j, const std::string& key, std::string& out)
{
  std::string pat = "\"" + key + "\"";
  size_t p = j.find(pat); if (p == std::string::npos) return false;
  p = j.find(':', p + pat.size()); if (p == std::string::npos) return false;
  p = j.find('"', p); if (p == std::string::npos) return false;
  out.clear();
  for (p++; p < j.size(); p++) {
    char c = j[p];
    if (c == '"') return true;
    if (c == '\\' && p + 1 < j.size()) {
      char d = j[++p];
      if (d == 'n') out += '\n'; else if (d == 't') out += '\t'; else if (d == 'r') out += '\r';
      else if (d == 'u' && p + 4 < j.size()) { out += (char)strtol(j.substr(p + 1, 4).c_str(), nullptr, 16); p += 4; }
      else out += d;
    } else out += c;
  }
  return false;
}

static std::string replay_json(Engine& e, const Plan& p, const Outcome& o, int shrink_runs, size_t steps_before)
{
  std::string j = "{\n";
  j += fmt(" \"property\": \"%s\",\n \"engine\": \"%s\",\n", e.property(), e.name());
  j += " \"class\": \"" + json_escape(o.cls) + "\",\n";
  j += fmt(" \"log_hash\": \"%016llx\",\n", (unsigned long long)o.hash);
  j += " \"seed\": \"" + json_escape(p.get("seed", "0")) + "\",\n";
  j += fmt(" \"fill\": %lld,\n \"detected_at_step\": %d,\n \"steps\": %zu,\n \"steps_before_shrinking\": %zu,\n \"shrink_runs\": %d,\n",
           p.geti("fill", 0), o.step, p.steps.size(), steps_before, shrink_runs);
  j += " \"note\": \"" + json_escape(o.note) + "\",\n";
  j += " \"log\": \"" + json_escape(o.logtext.substr(0, 20000)) + "\",\n";
  j += " \"plan\": \"" + json_escape(p.serialize()) + "\"\n}\n";
  return j;
}

// ---------------------------------------------------------------- driver ----
static std::string stats_kv(const Stats& st)
{
  std::string s;
  for (auto& p : st.c) { if (!s.empty()) s += ","; s += p.first + "=" + std::to_string(p.second); }
  return s.empty() ? "-" : s;
}

static volatile sig_atomic_t g_cur_index = -1;
static void on_alarm(int)
{
  const char m[] = "hang\n"; ssize_t w = write(1, m, sizeof m - 1); (void)w; _exit(78);
}

int driver_main(int argc, char** argv, Engine& e)
{
  std::string mode, arg, tier = "quick", out, cls;
  uint64_t vseed = 1; long long index = -1; bool verbose = false; int budget = 600;
  if (const char* s = getenv("VERIF_SEED")) vseed = strtoull(s, nullptr, 10);
  if (const char* s = getenv("VERIF_TIER")) tier = s;
  for (int i = 1; i < argc; i++) {
    std::string a = argv[i];
    auto val = [&](std::string& dst) { if (i + 1 < argc) dst = argv[++i]; };
    if (a == "--worker" || a == "--count") mode = a;
    else if (a == "--gen" || a == "--run-index") { mode = a; std::string v; val(v); index = atoll(v.c_str()); }
    else if (a == "--exec" || a == "--shrink" || a == "--replay" || a == "--exec-hash" || a == "--aslr-probe") { mode = a; val(arg); }
    else if (a == "--tier") val(tier);
    else if (a == "--seed") { std::string v; val(v); vseed = strtoull(v.c_str(), nullptr, 10); }
    else if (a == "--out") val(out);
    else if (a == "--class") val(cls);
    else if (a == "--budget") { std::string v; val(v); budget = atoi(v.c_str()); }
    else if (a == "-v") verbose = true;
    else { fprintf(stderr, "unknown argument %s\n", a.c_str()); return 2; }
  }
  e.init(tier);

  auto gen = [&](uint64_t idx) {
    uint64_t seed = run_seed(vseed, idx);
    Plan p = e.generate(seed, idx, tier);
    p.set("seed", std::to_string(seed)); p.seti("index", (long long)idx); p.set("engine", e.name());
    return p;
  };

  if (mode == "--count") { printf("%llu\n", (unsigned long long)e.enumerated_count(tier)); return 0; }

  if (mode == "--gen") {
    Plan p = gen(index);
    std::string t = p.serialize();
    if (out.empty()) fputs(t.c_str(), stdout); else write_file(out, t);
    return 0;
  }

  if (mode == "--worker") {
    // stdin: "run <index>" ... "quit".  stdout: begin/end lines, flushed.
    signal(SIGALRM, on_alarm);
    Stats total;
    long served = 0; bool retiring = false;
    char lb[256];
    while (fgets(lb, sizeof lb, stdin)) {
      if (!strncmp(lb, "quit", 4)) break;
      if (strncmp(lb, "run ", 4)) continue;
      uint64_t idx = strtoull(lb + 4, nullptr, 10);
      Plan p = gen(idx);
      printf("begin %llu %s\n", (unsigned long long)idx, p.get("seed").c_str()); fflush(stdout);
      g_cur_index = (sig_atomic_t)idx;
      alarm(60);
      Outcome o = execute_here(e, p, false);
      alarm(0);
      if (o.st.nontrivial && !o.st.shape.empty()) o.st.state("shape", o.st.shape);
      for (auto& s : o.st.states) total.states[s.first].insert(s.second.begin(), s.second.end());
      printf("end %llu %016llx %s %s %d %d %zu %s\n", (unsigned long long)idx, (unsigned long long)o.hash,
             o.ok ? "ok" : "viol", o.ok ? "-" : o.cls.c_str(), o.step, o.st.nontrivial ? 1 : 0,
             p.steps.size(), stats_kv(o.st).c_str());
      fflush(stdout);
      if (e.recycle_after() > 0 && ++served >= e.recycle_after()) { retiring = true; break; }
    }
    for (auto& s : total.states) {
      printf("states %s", s.first.c_str());
      for (auto k : s.second) printf(" %llx", (unsigned long long)k);
      printf("\n");
    }
    printf(retiring ? "recycle\n" : "bye\n"); fflush(stdout);
    return 0;
  }

  if (mode == "--run-index") {
    // one run of the batch in an isolated child: used to classify a run that killed a worker
    Plan p = gen(index);
    Outcome o = execute_isolated(e, p, false);
    printf("end %lld %016llx %s %s %d %d %zu %s\n", index, (unsigned long long)o.hash, o.ok ? "ok" : "viol",
           o.ok ? "-" : o.cls.c_str(), o.step, 0, p.steps.size(), "-");
    return o.ok ? 0 : 1;
  }

  if (mode == "--exec-hash") {     // used by the address-dependence probe: plain in-process execution, one line of output
    std::string t; if (!read_file(arg, t)) return 2;
    Plan p; if (!Plan::parse(t, p)) return 2;
    p.seti("refill", 0);
    Outcome o = execute_here(e, p, false);
    printf("hash %016llx:%s\n", (unsigned long long)o.hash, o.ok ? "ok" : o.cls.c_str()); fflush(stdout);
    _exit(0);
  }

  if (mode == "--aslr-probe") {
    std::string t; if (!read_file(arg, t)) return 2;
    Plan p; if (!Plan::parse(t, p)) return 2;
    AslrProbe pr = aslr_probe(p);
    printf("aslr-probe stable-without-aslr=%s differs-with-aslr=%s %s\n", pr.stable_without ? "yes" : "no", pr.differs_with ? "yes" : "no", pr.detail.c_str());
    return 0;
  }

  if (mode == "--exec") {
    std::string t; if (!read_file(arg, t)) { fprintf(stderr, "cannot read %s\n", arg.c_str()); return 2; }
    Plan p; if (!Plan::parse(t, p)) { fprintf(stderr, "bad plan\n"); return 2; }
    Outcome o = getenv("VERIF_NO_ISOLATE") ? execute_here(e, p, verbose) : execute_isolated(e, p, verbose);
    if (verbose) fputs(o.logtext.c_str(), stdout);
    printf("result %s class=%s step=%d hash=%016llx note=%s\n", o.ok ? "ok" : "viol", o.cls.c_str(), o.step,
           (unsigned long long)o.hash, o.note.c_str());
    return o.ok ? 0 : 1;
  }

  if (mode == "--shrink") {
    // --shrink plan.txt --out replay.json [--class C]
    std::string t; if (!read_file(arg, t)) { fprintf(stderr, "cannot read %s\n", arg.c_str()); return 2; }
    Plan p; if (!Plan::parse(t, p)) { fprintf(stderr, "bad plan\n"); return 2; }
    Outcome o1 = execute_for_class(e, p, cls, false, 30);
    if (o1.ok) { printf("shrink: plan does not fail\n"); return 2; }
    if (!cls.empty() && o1.cls != cls) { printf("shrink: class differs: got %s expected %s\n", o1.cls.c_str(), cls.c_str()); return 2; }
    Outcome o2 = execute_for_class(e, p, cls, false, 30);
    if (o2.ok || o2.cls != o1.cls || o2.hash != o1.hash) { printf("shrink: not deterministic (%s/%016llx vs %s/%016llx)\n", o1.cls.c_str(), (unsigned long long)o1.hash, o2.cls.c_str(), (unsigned long long)o2.hash); return 2; }
    size_t before = p.steps.size();
    Shrinker sh{e, o1.cls, budget};
    Plan m = sh.run(p);
    Outcome om = execute_for_class(e, m, o1.cls, true, 30);
    // a crash whose kind depends on where the wild access lands may not repeat with the same class: try again,
    // then fall back to the unshrunk plan (which was confirmed twice above)
    for (int attempt = 0; attempt < 3 && (om.ok || om.cls != o1.cls); attempt++) om = execute_for_class(e, m, o1.cls, true, 30);
    if (om.ok || om.cls != o1.cls) { m = p; om = execute_for_class(e, m, o1.cls, true, 30); }
    if (om.ok || om.cls != o1.cls) { printf("shrink: minimised plan lost the violation\n"); return 2; }
    std::string j = replay_json(e, m, om, sh.runs, before);
    if (!write_file(out, j)) { fprintf(stderr, "cannot write %s\n", out.c_str()); return 2; }
    printf("shrunk class=%s steps=%zu->%zu runs=%d hash=%016llx out=%s\n", om.cls.c_str(), before, m.steps.size(), sh.runs,
           (unsigned long long)om.hash, out.c_str());
    return 0;
  }

  if (mode == "--replay") {
    std::string j; if (!read_file(arg, j)) { fprintf(stderr, "cannot read %s\n", arg.c_str()); return 2; }
    std::string pt, ecls, ehash;
    if (!json_get_string(j, "plan", pt) || !json_get_string(j, "class", ecls) || !json_get_string(j, "log_hash", ehash)) { fprintf(stderr, "bad replay file\n"); return 2; }
    Plan p; if (!Plan::parse(pt, p)) { fprintf(stderr, "bad plan in replay file\n"); return 2; }
    Outcome o = execute_for_class(e, p, ecls, true, 30);
    if (verbose) fputs(o.logtext.c_str(), stdout);
    uint64_t eh = strtoull(ehash.c_str(), nullptr, 16);
    bool same = !o.ok && o.cls == ecls && o.hash == eh;
    printf("replay %s class=%s hash=%016llx expected_class=%s expected_hash=%s reproduced=%s\n", o.ok ? "ok" : "viol",
           o.cls.c_str(), (unsigned long long)o.hash, ecls.c_str(), ehash.c_str(), same ? "exact" : (!o.ok && o.cls == ecls ? "class-only" : "no"));
    if (!o.ok) { printf("note: %s\n", o.note.c_str()); printf("VIOLATION property=%s replay=%s\n", e.property(), arg.c_str()); return 1; }
    return 0;
  }

  fprintf(stderr, "usage: %s --worker | --gen N | --run-index N | --exec plan | --shrink plan --out f | --replay f  [--tier t] [--seed s]\n", e.name());
  return 2;
}

} // namespace sim

// ---------------------------------------------------- sanitizer defaults ----
extern "C" __attribute__((used, visibility("default"))) const char* __asan_default_options()
{
  return "exitcode=77:detect_leaks=0:abort_on_error=0:alloc_dealloc_mismatch=0:new_delete_type_mismatch=0:"
         "allocator_may_return_null=1:detect_stack_use_after_return=0:handle_abort=1:max_allocation_size_mb=2048";
}
extern "C" __attribute__((used, visibility("default"))) const char* __ubsan_default_options()
{
  return "print_stacktrace=1:exitcode=77";
}

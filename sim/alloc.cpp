// Allocator seam (DESIGN.md 2.2): the engine binary owns the global operator
// new/delete.  Blocks still come from malloc, so ASan keeps its red zones,
// quarantine and use-after-free detection; what the seam adds is control over
// the bytes a fresh block contains, i.e. over what a read of never-written heap
// memory returns.
#include "sim/sim.h"
#include <cstdlib>
#include <new>

namespace {
int      g_fill = sim::FILL_NONE;
uint64_t g_state = 1;
long long g_allocs = 0;

inline void fill_block(void* p, size_t n)
{
  switch (g_fill) {
    case sim::FILL_00: memset(p, 0x00, n); break;
    case sim::FILL_FF: memset(p, 0xFF, n); break;     // NaN for doubles, -1 for ints
    case sim::FILL_A5: memset(p, 0xA5, n); break;
    case sim::FILL_PRNG: {
      unsigned char* b = static_cast<unsigned char*>(p);
      size_t i = 0;
      while (i < n) {
        uint64_t r = sim::splitmix64(g_state);
        for (int k = 0; k < 8 && i < n; k++, i++) b[i] = (unsigned char)(r >> (8 * k));
      }
      break;
    }
    default: break;
  }
}

inline void* sim_new(size_t n)
{
  g_allocs++;
  void* p = malloc(n ? n : 1);
  if (!p) throw std::bad_alloc();
  if (g_fill != sim::FILL_NONE) fill_block(p, n);
  return p;
}
}

namespace sim {
void set_fill(int mode, uint64_t seed) { g_fill = mode; g_state = seed ? seed : 1; }
int  get_fill() { return g_fill; }
}
extern "C" long long sim_alloc_count() { return g_allocs; }

void* operator new(size_t n) { return sim_new(n); }
void* operator new[](size_t n) { return sim_new(n); }
void* operator new(size_t n, const std::nothrow_t&) noexcept { try { return sim_new(n); } catch (...) { return nullptr; } }
void* operator new[](size_t n, const std::nothrow_t&) noexcept { try { return sim_new(n); } catch (...) { return nullptr; } }
void operator delete(void* p) noexcept { free(p); }
void operator delete[](void* p) noexcept { free(p); }
void operator delete(void* p, size_t) noexcept { free(p); }
void operator delete[](void* p, size_t) noexcept { free(p); }
void operator delete(void* p, const std::nothrow_t&) noexcept { free(p); }
void operator delete[](void* p, const std::nothrow_t&) noexcept { free(p); }

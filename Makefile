# Build of the deterministic-simulation engines for GNU Gama.
#
# Everything is compiled from /repo's *current working tree* (never from a
# copy), with the hook guard on and with ASan+UBSan.  Object files carry -MMD
# dependency files, so a check that starts with `make` only recompiles what an
# edit under /repo touched.
#
#   make            objects + four engines + real-process binaries
#   make clean

REPO   ?= /repo
B      ?= build
CXX    ?= g++
GUARD  := GNU_GAMA_VERIF_SIM

# Gating UBSan kinds abort (no recover); the others are reported on fd 2 and
# only counted (DESIGN.md 2.6).
SAN    ?= -fsanitize=address,undefined \
          -fno-sanitize-recover=null,bounds,alignment,object-size,vptr,return,unreachable
CXXSTD := -std=gnu++17
OPT    ?= -O1
CXXFLAGS_COMMON := $(CXXSTD) $(OPT) -g -DNDEBUG -D$(GUARD) -fno-omit-frame-pointer \
                   -Wno-error -w $(SAN) -I$(REPO)/lib -I$(CURDIR)
LDFLAGS_COMMON  := $(SAN)
EXPAT  := /usr/lib/x86_64-linux-gnu/libexpat.a

# ---- source list: every lib/**/*.cpp named in CMakeLists.txt's SRC_GAMA ----
SRC_LIST := $(B)/sources.mk
$(shell mkdir -p $(B))
$(shell python3 tools/srclist.py $(REPO) > $(SRC_LIST).tmp && \
        (cmp -s $(SRC_LIST).tmp $(SRC_LIST) || mv $(SRC_LIST).tmp $(SRC_LIST)); rm -f $(SRC_LIST).tmp)
include $(SRC_LIST)

LIB_OBJS := $(patsubst %.cpp,$(B)/obj/%.o,$(GAMA_LIB_SRCS))

ENGINES  := $(basename $(notdir $(wildcard engines/sim_*.cpp)))
BINS     := $(addprefix $(B)/,$(ENGINES)) $(B)/real-gama-local $(B)/real-gama-g3

all: $(BINS)

$(B)/obj/%.o: $(REPO)/%.cpp
	@mkdir -p $(dir $@)
	$(CXX) $(CXXFLAGS_COMMON) -MMD -MP -c $< -o $@

$(B)/libgama.a: $(LIB_OBJS)
	@rm -f $@
	ar rcs $@ $(LIB_OBJS)

# ---- the two mains, compiled unchanged, then `main` renamed so that they can
#      be called as ordinary functions by ProcEmu (DESIGN.md 2.2) ------------
$(B)/obj/src/%.o: $(REPO)/src/%.cpp
	@mkdir -p $(dir $@)
	$(CXX) $(CXXFLAGS_COMMON) -MMD -MP -c $< -o $@

$(B)/emu/gama-local.o: $(B)/obj/src/gama-local.o
	@mkdir -p $(dir $@)
	objcopy --redefine-sym main=gama_local_main $< $@

$(B)/emu/gama-g3.o: $(B)/obj/src/gama-g3.o
	@mkdir -p $(dir $@)
	objcopy --redefine-sym main=gama_g3_main $< $@

$(B)/emu/compare-xyz.o: $(B)/obj/src/compare-xyz.o
	@mkdir -p $(dir $@)
	objcopy --redefine-sym main=compare_xyz_main $< $@

# ---- simulator core ---------------------------------------------------------
SIM_HDRS := $(wildcard sim/*.h)
$(B)/sim/%.o: sim/%.cpp $(SIM_HDRS)
	@mkdir -p $(dir $@)
	$(CXX) $(CXXFLAGS_COMMON) -MMD -MP -c $< -o $@

$(B)/eng/%.o: engines/%.cpp $(SIM_HDRS) $(wildcard engines/*.h)
	@mkdir -p $(dir $@)
	$(CXX) $(CXXFLAGS_COMMON) -MMD -MP -c $< -o $@

SIM_OBJS := $(B)/sim/core.o $(B)/sim/alloc.o

$(B)/sim_objs: $(B)/eng/sim_objs.o $(SIM_OBJS)
	$(CXX) $(LDFLAGS_COMMON) -o $@ $^

$(B)/sim_hist: $(B)/eng/sim_hist.o $(B)/eng/hist_net.o $(SIM_OBJS) $(B)/libgama.a
	$(CXX) $(LDFLAGS_COMMON) -o $@ $(B)/eng/sim_hist.o $(B)/eng/hist_net.o $(SIM_OBJS) $(B)/libgama.a $(EXPAT)

$(B)/sim_io: $(B)/eng/sim_io.o $(SIM_OBJS) $(B)/emu/gama-local.o $(B)/emu/gama-g3.o $(B)/emu/compare-xyz.o $(B)/libgama.a
	$(CXX) $(LDFLAGS_COMMON) -o $@ $(B)/eng/sim_io.o $(SIM_OBJS) $(B)/emu/gama-local.o $(B)/emu/gama-g3.o $(B)/emu/compare-xyz.o $(B)/libgama.a $(EXPAT)

$(B)/sim_restart: $(B)/eng/sim_restart.o $(SIM_OBJS) $(B)/emu/gama-local.o $(B)/libgama.a
	$(CXX) $(LDFLAGS_COMMON) -o $@ $(B)/eng/sim_restart.o $(SIM_OBJS) $(B)/emu/gama-local.o $(B)/libgama.a $(EXPAT)

# ---- the same objects linked as real programs (fidelity cross-check) ---------
$(B)/real-gama-local: $(B)/obj/src/gama-local.o $(B)/libgama.a
	$(CXX) $(LDFLAGS_COMMON) -o $@ $< $(B)/libgama.a $(EXPAT)

$(B)/real-gama-g3: $(B)/obj/src/gama-g3.o $(B)/libgama.a
	$(CXX) $(LDFLAGS_COMMON) -o $@ $< $(B)/libgama.a $(EXPAT)

clean:
	rm -rf $(B)

-include $(shell find $(B) -name '*.d' 2>/dev/null)

.PHONY: all clean
